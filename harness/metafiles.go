package main

// Builders of PNG / JPEG / WebP files with known metadata, embedded ICC profiles, damage classes,
// and the instrumented readers (delivery schedules, injected I/O failures) used by C05-C09, C18, C19.

import (
	"bytes"
	"compress/zlib"
	"errors"
	"fmt"
	"hash/crc32"
	"image"
	"image/jpeg"
	_ "image/png"
	"io"
	"math/rand"
	"os"
	"strings"
	"sync"
	"sync/atomic"

	_ "golang.org/x/image/webp"

	"github.com/mandykoh/prism/meta"
	"github.com/mandykoh/prism/meta/autometa"
	"github.com/mandykoh/prism/meta/jpegmeta"
	"github.com/mandykoh/prism/meta/pngmeta"
	"github.com/mandykoh/prism/meta/webpmeta"
)

// ---------- delivery schedules ----------

type sched struct {
	Sizes       []int  `json:"sizes,omitempty"` // at most Sizes[i] bytes for the i-th successful Read; afterwards everything asked
	EOFWithData bool   `json:"eof_with_data"`   // the terminating error accompanies the last bytes
	FailAfter   int    `json:"fail_after"`      // -1: never; k: the source fails after delivering k bytes
	Name        string `json:"name"`
	// Hesitant h > 0: every h-th Read call returns (0, nil) first - permitted by the io.Reader contract
	// (discouraged), never twice in a row; what is delivered, and in which segments, is unchanged
	Hesitant int `json:"hesitant,omitempty"`
}

var errInjected = errors.New("injected I/O failure")

type schedReader struct {
	data      []byte
	sizes     []int
	i         int
	eofWD     bool
	fail      int
	delivered int
	reads     int
	hes       int
	lastZero  bool
}

func newSchedReader(data []byte, s sched) *schedReader {
	return &schedReader{data: data, sizes: s.Sizes, eofWD: s.EOFWithData, fail: s.FailAfter, hes: s.Hesitant}
}

// Read mirrors IO.base_read of the Coq model exactly.
func (r *schedReader) Read(p []byte) (int, error) {
	r.reads++
	if len(p) == 0 {
		return 0, nil
	}
	if r.hes > 0 && r.reads%r.hes == 0 && !r.lastZero {
		r.lastZero = true
		return 0, nil
	}
	r.lastZero = false
	lim := len(r.data)
	if r.fail >= 0 && r.fail < lim {
		lim = r.fail
	}
	seg := lim
	if r.i < len(r.sizes) {
		seg = r.sizes[r.i]
	}
	k := len(p)
	if lim < k {
		k = lim
	}
	if seg < k {
		k = seg
	}
	if k == 0 {
		if r.fail == 0 {
			return 0, errInjected
		}
		return 0, io.EOF
	}
	copy(p, r.data[:k])
	r.data = r.data[k:]
	r.delivered += k
	if r.fail >= 0 {
		r.fail -= k
	}
	if r.i < len(r.sizes) {
		r.i++
	}
	atEnd := len(r.data) == 0
	atFail := r.fail == 0
	if r.eofWD && (atFail || atEnd) {
		if atFail {
			return k, errInjected
		}
		return k, io.EOF
	}
	return k, nil
}

func (s sched) wire() string {
	sz := "-"
	if len(s.Sizes) > 0 {
		parts := make([]string, len(s.Sizes))
		for i, v := range s.Sizes {
			parts[i] = fmt.Sprint(v)
		}
		sz = strings.Join(parts, ",")
	}
	e := "0"
	if s.EOFWithData {
		e = "1"
	}
	return fmt.Sprintf("%s %s %d", sz, e, s.FailAfter)
}

func fixedSched(n, size int, eofwd bool, name string) sched {
	cnt := n/size + 2
	if cnt > 200000 {
		cnt = 200000
	}
	sz := make([]int, cnt)
	for i := range sz {
		sz[i] = size
	}
	return sched{Sizes: sz, EOFWithData: eofwd, FailAfter: -1, Name: name}
}

func randomSched(rng *rand.Rand, n int, eofwd bool) sched {
	var sz []int
	tot := 0
	for tot < n && len(sz) < 5000 {
		k := pick(rng, 1, 1, 2, 3, 7, 8, 100, 511, 512, 4095, 4096, 4097, 10000)
		if rng.Intn(3) == 0 {
			k = 1 + rng.Intn(5000)
		}
		sz = append(sz, k)
		tot += k
	}
	return sched{Sizes: sz, EOFWithData: eofwd, FailAfter: -1, Name: "random"}
}

// split at one offset: first read delivers off bytes at most, then everything
func splitSched(off int, eofwd bool) sched {
	return sched{Sizes: []int{off}, EOFWithData: eofwd, FailAfter: -1, Name: fmt.Sprintf("split@%d", off)}
}

var allAtOnce = sched{FailAfter: -1, Name: "all"}

// ---------- observing a loader ----------

type loadObs struct {
	Status    string // ok | err | panic
	MD        string // canonical metadata when ok
	Pulled    int
	Replay    []byte
	End       string // eof | fail | other:<msg>
	NilStream bool
}

var contractMu sync.Mutex
var contractBreaks []map[string]interface{}

func noteContractBreak(which string, data []byte) {
	contractMu.Lock()
	defer contractMu.Unlock()
	if len(contractBreaks) < 8 {
		contractBreaks = append(contractBreaks, map[string]interface{}{"loader": which, "bytes": len(data), "data": shortHex(data)})
	}
}

var accessorOrder uint32

func iccString(md *meta.Data) string {
	// callers ask for the parsed profile and for the raw bytes in either order: every other time the parsed
	// profile is requested first (whether it parses or not, the raw bytes stay what was embedded)
	if atomic.AddUint32(&accessorOrder, 1)%2 == 0 {
		func() {
			defer func() { recover() }()
			md.ICCProfile()
		}()
	}
	d, err := md.ICCProfileData()
	if err != nil {
		return "iccerr"
	}
	if d == nil {
		return "none"
	}
	return "data:" + hx(d)
}

func mdString(md *meta.Data) string {
	return fmt.Sprintf("%s %x %x %x %s", string(md.Format), md.PixelWidth, md.PixelHeight, md.BitsPerComponent, iccString(md))
}

type loaderFn func(io.Reader) (*meta.Data, io.Reader, error)

var loaders = map[string]loaderFn{"png": pngmeta.Load, "jpeg": jpegmeta.Load, "webp": webpmeta.Load, "auto": autometa.Load}

// read sizes used when draining a returned stream: callers read in all sorts of ways, zero-length reads included
// a negative entry: hand the rest to io.Copy (which uses the stream's WriteTo when it has one)
var drainPatterns = [][]int{{512}, {1}, {0, 7}, {3, 0, 1, 0, 5}, {4096}, {65536}, {2, 4095}, {-1}, {5, -1}, {0, 300, -1}, {4096, 1, -1}}
var drainCounter uint32

func drainStream(s io.Reader) ([]byte, string) {
	pat := drainPatterns[int(atomic.AddUint32(&drainCounter, 1))%len(drainPatterns)]
	return drainStreamPattern(s, pat)
}

func drainStreamPattern(s io.Reader, pat []int) ([]byte, string) {
	var out []byte
	buf := make([]byte, 65536)
	zero := 0
	for i := 0; i < 1<<30; i++ {
		k := pat[i%len(pat)]
		if k < 0 {
			var rest bytes.Buffer
			_, err := io.Copy(&rest, s)
			out = append(out, rest.Bytes()...)
			switch {
			case err == nil:
				return out, "eof"
			case err == errInjected:
				return out, "fail"
			}
			return out, "other:" + err.Error()
		}
		n, err := s.Read(buf[:k])
		out = append(out, buf[:n]...)
		if err != nil {
			if err == io.EOF {
				return out, "eof"
			}
			if err == errInjected {
				return out, "fail"
			}
			return out, "other:" + err.Error()
		}
		if n == 0 && k > 0 {
			zero++ // consecutive empty reads; a hesitant source interleaves single ones
			if zero > 1000 {
				return out, "noprogress"
			}
		} else if n > 0 {
			zero = 0
		}
	}
	return out, "noend"
}

func observeLoad(which string, data []byte, s sched) (o loadObs) {
	r := newSchedReader(data, s)
	var md *meta.Data
	var stream io.Reader
	var err error
	func() {
		defer func() {
			if p := recover(); p != nil {
				o.Status = "panic"
			}
		}()
		md, stream, err = loaders[which](r)
	}()
	o.Pulled = r.delivered
	if o.Status == "panic" {
		return o
	}
	if err != nil || md == nil {
		o.Status = "err"
		if err == nil {
			noteContractBreak(which, data)
		}
	} else {
		o.Status = "ok"
		o.MD = mdString(md)
		scribbleOnProfile(md)
	}
	if stream == nil {
		o.NilStream = true
		return o
	}
	o.Replay, o.End = drainStream(stream)
	return o
}

// what the caller does with the returned profile bytes is its own business: it may edit them in place or
// append to them before it reads the image stream, which must still replay the input
var scribbleCounter uint32

func scribbleOnProfile(md *meta.Data) {
	if atomic.AddUint32(&scribbleCounter, 1)%3 != 0 {
		return
	}
	defer func() { recover() }()
	d, _ := md.ICCProfileData()
	for i := range d {
		d[i] ^= 0x5a
	}
	d = append(d, 0xde, 0xad, 0xbe, 0xef, 0xde, 0xad, 0xbe, 0xef)
	_ = d
}

func (o loadObs) outcome() string {
	if o.Status == "ok" {
		return "ok " + o.MD
	}
	return o.Status
}

// what the source has to deliver in total under schedule s, and how it ends
func expectedReplay(data []byte, s sched) ([]byte, string) {
	if s.FailAfter >= 0 && s.FailAfter <= len(data) {
		return data[:s.FailAfter], "fail"
	}
	return data, "eof"
}

// ---------- the zlib oracle, exactly as pngmeta uses it ----------

func realInflate(z []byte) ([]byte, bool) {
	zr, err := zlib.NewReader(bytes.NewReader(z))
	if err != nil {
		return nil, false
	}
	var buf bytes.Buffer
	_, err = io.Copy(&buf, zr)
	zr.Close()
	if err != nil {
		return nil, false
	}
	return buf.Bytes(), true
}

// askInflate sends a request whose last field is the inflate table and serves NEED replies.
func (c *worker) askInflate(req string) string {
	table := map[string]string{}
	for tries := 0; tries < 50; tries++ {
		t := "-"
		if len(table) > 0 {
			var parts []string
			for k, v := range table {
				parts = append(parts, k+":"+v)
			}
			t = strings.Join(parts, ";")
		}
		rep := c.runner.Ask(req + " " + t)
		if strings.HasPrefix(rep, "NEED inflate ") {
			z := strings.TrimPrefix(rep, "NEED inflate ")
			out, ok := realInflate(unhx(z))
			if !ok {
				table[z] = "!"
			} else {
				table[z] = hx(out)
			}
			continue
		}
		return rep
	}
	return "NEED-LOOP"
}

// ---------- PNG builder ----------

type chunk struct {
	typ  string
	data []byte
}

func pngChunk(typ string, data []byte) []byte {
	b := be32(uint32(len(data)))
	b = append(b, typ...)
	b = append(b, data...)
	crc := crc32.NewIEEE()
	crc.Write([]byte(typ))
	crc.Write(data)
	return append(b, be32(crc.Sum32())...)
}

var pngSigBytes = []byte{0x89, 'P', 'N', 'G', 0x0D, 0x0A, 0x1A, 0x0A}

type mfile struct {
	Name       string
	Fmt        string // png | jpeg | webp
	Data       []byte
	W, H       uint32
	Bits       uint32
	ICC        string // expected ICC outcome: none | iccerr | data:<hex> | any
	End        int    // end of the last structure the loader needs (offset), -1 if not applicable
	Decodable  bool   // the standard decoders' DecodeConfig is expected to accept it
	HasICCRead bool   // the loader reads an ICC payload through ReadAll (pulled not compared exactly)
	Tags       []string
}

func (f *mfile) wantMD() string {
	return fmt.Sprintf("%s %x %x %x %s", map[string]string{"png": "PNG", "jpeg": "JPEG", "webp": "WebP"}[f.Fmt], f.W, f.H, f.Bits, f.ICC)
}

var ancTypes = []string{"tEXt", "gAMA", "cHRM", "pHYs", "sBIT", "bKGD", "tIME", "zTXt", "iTXt", "sRGB", "eXIf", "prVt", "vpAg", "tRNS", "hIST", "sPLT"}

var chunkSizes = []int{0, 1, 7, 12, 100, 4087, 4088, 4089, 4095, 4096, 4097, 4105, 8192, 65533, 70000}

type pngOpt struct {
	w, h      uint32
	depth     byte
	ctype     byte
	interlace byte
	nAnc      int
	icc       []byte // profile to embed (nil: none)
	iccName   string
	iccLevel  int
	iccPos    int    // position of iCCP among the ancillary chunks
	damage    string // "", "zlib-corrupt", "zlib-truncated", "bad-method"
	body      int    // IDAT payload size
	smallAnc  bool
	bigAnc    int // when > 0: every ancillary chunk after iCCP has this many bytes
	ihdrExtra int // extra bytes appended to IHDR data (length > 13)
}

func buildPNG(rng *rand.Rand, o pngOpt) *mfile {
	f := &mfile{Fmt: "png", W: o.w, H: o.h, Bits: uint32(o.depth), ICC: "none", Decodable: o.ihdrExtra == 0}
	b := append([]byte{}, pngSigBytes...)
	ihdr := append(be32(o.w), be32(o.h)...)
	ihdr = append(ihdr, o.depth, o.ctype, 0, 0, o.interlace)
	ihdr = append(ihdr, randBytes(rng, o.ihdrExtra)...)
	b = append(b, pngChunk("IHDR", ihdr)...)
	end := -1
	iccDone := false
	for i := 0; i <= o.nAnc; i++ {
		if o.icc != nil && i == o.iccPos {
			var zb bytes.Buffer
			zw, _ := zlib.NewWriterLevel(&zb, o.iccLevel)
			zw.Write(o.icc)
			zw.Close()
			z := zb.Bytes()
			method := byte(0)
			switch o.damage {
			case "zlib-corrupt":
				z = append([]byte{}, z...)
				if len(z) > 8 {
					for k := 2; k < len(z)-4 && k < 40; k++ {
						z[k] ^= 0x5a
					}
					z[len(z)-1] ^= 0xff
				} else {
					z[0] ^= 0xff
				}
			case "zlib-truncated":
				z = z[:len(z)/2]
			case "bad-header":
				z = append([]byte{0x00, 0x00}, z...)
			}
			d := append([]byte(o.iccName), 0, method)
			d = append(d, z...)
			b = append(b, pngChunk("iCCP", d)...)
			f.HasICCRead = true
			if o.damage == "" {
				f.ICC = "data:" + hx(o.icc)
				end = len(b)
				iccDone = true
			} else {
				// what the real inflate says decides (a corrupted stream may still inflate)
				if out, ok := realInflate(z); ok {
					if len(out) == 0 {
						f.ICC = "none"
					} else {
						f.ICC = "any"
						end = len(b)
						iccDone = true
					}
				} else {
					f.ICC = "iccerr"
				}
			}
		}
		if i < o.nAnc {
			sz := chunkSizes[rng.Intn(len(chunkSizes))]
			if o.smallAnc {
				sz = rng.Intn(40)
			}
			if o.bigAnc > 0 && iccDone {
				sz = o.bigAnc
			}
			b = append(b, pngChunk(ancTypes[rng.Intn(len(ancTypes))], randBytes(rng, sz))...)
		}
	}
	if o.ctype == 3 {
		n := 1 << o.depth
		b = append(b, pngChunk("PLTE", randBytes(rng, 3*(1+rng.Intn(n))))...)
	}
	idatStart := len(b)
	b = append(b, pngChunk("IDAT", bodyBytes(rng, o.body))...)
	if !iccDone {
		end = idatStart + 8
	}
	b = append(b, pngChunk("IEND", nil)...)
	f.Data = b
	f.End = end
	return f
}

var pngKinds = [][2]byte{{0, 1}, {0, 2}, {0, 4}, {0, 8}, {0, 16}, {2, 8}, {2, 16}, {3, 1}, {3, 2}, {3, 4}, {3, 8}, {4, 8}, {4, 16}, {6, 8}, {6, 16}}

// dimension values exercising every bit of a field of the given width
func dimValues(rng *rand.Rand, bits uint, n int) []uint32 {
	max := uint32(1)<<bits - 1
	vals := []uint32{1, 2, 3, 255, 256, 257, max, max - 1, max >> 1, max>>1 + 1}
	for i := uint(0); i < bits; i++ {
		vals = append(vals, 1<<i)
	}
	for len(vals) < n {
		vals = append(vals, 1+uint32(rng.Int63n(int64(max))))
	}
	return vals
}

// ---------- JPEG builder ----------

func jpegSeg(marker byte, data []byte) []byte {
	b := []byte{0xff, marker}
	b = append(b, be16(uint16(len(data)+2))...)
	return append(b, data...)
}

type jpegOpt struct {
	w, h         uint16
	precision    byte
	ncomp        int
	progressive  bool
	nBefore      int // segments between SOI and SOF (besides ICC)
	nAfter       int // segments between SOF and SOS
	icc          []byte
	chunkSize    int   // payload bytes per APP2 chunk
	order        []int // order in which the chunks are emitted (permutation of 0..n-1); nil = in order
	iccAfterSOF  bool
	damage       string // "", drop, total, seq0, seqhigh, dup
	body         int
	realTables   [][]byte // DQT/DHT segments taken from a real file (decodable filler)
	app2AfterICC bool     // a non-ICC APP2 segment (MPF) between the ICC chunks and the frame header
	bigTail      int      // this many 65533-byte COM segments after everything the loader needs, before SOS
	noJFIF       bool     // no APP0 after SOI: the first segment is whatever comes next (DQT, COM, SOF, APP2, ...)
}

func jpegFiller(rng *rand.Rand, o *jpegOpt) []byte {
	switch rng.Intn(5) {
	case 0:
		return jpegSeg(0xfe, randBytes(rng, pick(rng, 0, 1, 10, 300, 4090, 65533)))
	case 1:
		m := byte(0xe0 + rng.Intn(16))
		d := randBytes(rng, pick(rng, 0, 5, 14, 100, 5000))
		if m == 0xe2 && len(d) >= 12 && rng.Intn(2) == 0 {
			copy(d, "ICC_PROFILF\x00") // looks almost like an ICC chunk
		}
		if m == 0xee || m == 0xe0 {
			m = 0xe1
		}
		return jpegSeg(m, d)
	case 2:
		if len(o.realTables) > 0 {
			return o.realTables[rng.Intn(len(o.realTables))]
		}
		return jpegSeg(0xfe, nil)
	case 3:
		return jpegSeg(0xdd, []byte{0, byte(rng.Intn(256))})
	default:
		return jpegSeg(0xe1, append([]byte("Exif\x00\x00"), randBytes(rng, rng.Intn(200))...))
	}
}

func buildJPEG(rng *rand.Rand, o jpegOpt) *mfile {
	f := &mfile{Fmt: "jpeg", W: uint32(o.w), H: uint32(o.h), Bits: uint32(o.precision), ICC: "none",
		Decodable: o.precision == 8 && o.w > 0 && o.h > 0}
	b := []byte{0xff, 0xd8}
	// ICC chunks
	var iccSegs [][]byte
	if o.icc != nil {
		cs := o.chunkSize
		if cs <= 0 {
			cs = 65519
		}
		n := (len(o.icc) + cs - 1) / cs
		if n == 0 {
			n = 1
		}
		type ch struct {
			seq, total int
			payload    []byte
		}
		var chs []ch
		for i := 0; i < n; i++ {
			lo, hi := i*cs, (i+1)*cs
			if hi > len(o.icc) {
				hi = len(o.icc)
			}
			chs = append(chs, ch{i + 1, n, o.icc[lo:hi]})
		}
		f.ICC = "data:" + hx(o.icc)
		k := rng.Intn(len(chs))
		switch o.damage {
		case "drop":
			chs = append(chs[:k], chs[k+1:]...)
			f.ICC = "iccerr"
			if len(chs) == 0 { // the only chunk dropped: no profile at all
				f.ICC = "none"
			}
		case "total":
			d := 1 + rng.Intn(3)
			if chs[k].total+d > 255 || rng.Intn(2) == 0 && chs[k].total-d >= 1 {
				d = -d
			}
			if chs[k].total+d < 1 {
				d = 1
			}
			chs[k].total += d
			f.ICC = "iccerr"
			if k == 0 && chs[k].total == 1 && n > 1 && o.iccAfterSOF {
				// recorded finding: the loader stops after the first chunk (see known_findings.txt)
				f.Tags = append(f.Tags, "class=jpeg-first-chunk-total-1-after-sof")
			}
			f.Tags = append(f.Tags, fmt.Sprintf("total-changed-at-%d-of-%d-by-%d", k+1, n, d))
		case "seq0":
			chs[k].seq = 0
			f.ICC = "iccerr"
		case "seqhigh":
			chs[k].seq = n + 1 + rng.Intn(3)
			f.ICC = "iccerr"
		case "dup":
			// a duplicate appended after a complete set: the complete profile or an error are both
			// acceptable (duplicates are not among the property's damage classes)
			chs = append(chs, chs[k])
			f.ICC = "oneof:iccerr|data:" + hx(o.icc)
		}
		order := o.order
		if order == nil || len(order) != len(chs) {
			order = make([]int, len(chs))
			for i := range order {
				order[i] = i
			}
		}
		for _, idx := range order {
			c := chs[idx]
			d := append([]byte("ICC_PROFILE\x00"), byte(c.seq), byte(c.total))
			d = append(d, c.payload...)
			iccSegs = append(iccSegs, jpegSeg(0xe2, d))
		}
	}
	emitICC := func(all bool) {
		for len(iccSegs) > 0 {
			b = append(b, iccSegs[0]...)
			iccSegs = iccSegs[1:]
			if !all && rng.Intn(2) == 0 {
				return
			}
		}
	}
	sof := func() {
		d := []byte{o.precision}
		d = append(d, be16(o.h)...)
		d = append(d, be16(o.w)...)
		d = append(d, byte(o.ncomp))
		for i := 0; i < o.ncomp; i++ {
			hv := byte(0x11)
			if i == 0 && o.ncomp == 3 {
				hv = []byte{0x11, 0x21, 0x22, 0x12, 0x41, 0x42}[rng.Intn(6)]
			}
			d = append(d, byte(i+1), hv, byte(i%2))
		}
		m := byte(0xc0)
		if o.progressive {
			m = 0xc2
		}
		b = append(b, jpegSeg(m, d)...)
	}
	if !o.noJFIF {
		b = append(b, jpegSeg(0xe0, []byte("JFIF\x00\x01\x01\x00\x00\x01\x00\x01\x00\x00"))...)
	}
	endICC, endSOF := -1, -1
	if !o.iccAfterSOF {
		for i := 0; i < o.nBefore; i++ {
			if rng.Intn(2) == 0 {
				emitICC(false)
			}
			b = append(b, jpegFiller(rng, &o)...)
		}
		emitICC(true)
		endICC = len(b)
		if o.app2AfterICC {
			b = append(b, jpegSeg(0xe2, append([]byte("MPF\x00MM\x00*"), randBytes(rng, 40)...))...)
		}
		for i := 0; i < rng.Intn(2); i++ {
			b = append(b, jpegFiller(rng, &o)...)
		}
		sof()
		endSOF = len(b)
	} else {
		for i := 0; i < o.nBefore; i++ {
			b = append(b, jpegFiller(rng, &o)...)
		}
		sof()
		endSOF = len(b)
		for i := 0; i < o.nAfter/2; i++ {
			if rng.Intn(2) == 0 {
				emitICC(false)
			}
			b = append(b, jpegFiller(rng, &o)...)
		}
		emitICC(true)
		endICC = len(b)
	}
	for i := 0; i < o.nAfter-o.nAfter/2; i++ {
		b = append(b, jpegFiller(rng, &o)...)
	}
	for i := 0; i < o.bigTail; i++ {
		b = append(b, jpegSeg(0xfe, randBytes(rng, 65533))...)
	}
	sosHdr := []byte{byte(o.ncomp)}
	for i := 0; i < o.ncomp; i++ {
		sosHdr = append(sosHdr, byte(i+1), 0)
	}
	sosHdr = append(sosHdr, 0, 63, 0)
	b = append(b, jpegSeg(0xda, sosHdr)...)
	endSOS := len(b)
	body := bodyBytes(rng, o.body)
	for i := range body {
		if body[i] == 0xff {
			body[i] = 0xfe
		}
	}
	b = append(b, body...)
	b = append(b, 0xff, 0xd9)
	f.Data = b
	f.End = endSOS
	if o.icc != nil && o.damage == "" {
		f.End = endICC
		if endSOF > endICC {
			f.End = endSOF
		}
	}
	return f
}

// a JPEG written by image/jpeg (starts with DQT, no APPn segment at all)
func stdlibJPEG(rng *rand.Rand, w, h int, gray bool) *mfile {
	var img image.Image
	if gray {
		g := image.NewGray(image.Rect(0, 0, w, h))
		rng.Read(g.Pix)
		img = g
	} else {
		g := image.NewRGBA(image.Rect(0, 0, w, h))
		rng.Read(g.Pix)
		img = g
	}
	var buf bytes.Buffer
	if err := jpeg.Encode(&buf, img, &jpeg.Options{Quality: 50 + rng.Intn(50)}); err != nil {
		panic(err)
	}
	b := buf.Bytes()
	f := &mfile{Fmt: "jpeg", W: uint32(w), H: uint32(h), Bits: 8, ICC: "none", Decodable: true, Data: b}
	// end of needed = end of the SOS segment
	for i := 2; i+4 <= len(b); {
		l := int(b[i+2])<<8 | int(b[i+3])
		if b[i+1] == 0xda {
			f.End = i + 2 + l
			break
		}
		i += 2 + l
	}
	return f
}

// pixel-data payloads: random bytes, or (bodyFill) bytes drawn from a restricted alphabet so that loaders
// which scan the payload for a particular value behave differently: "noff" = random without 0xFF,
// "zero" = all zero, "ff" = all 0xFF
var bodyFill = ""

func bodyBytes(rng *rand.Rand, n int) []byte {
	b := randBytes(rng, n)
	switch bodyFill {
	case "noff":
		for i := range b {
			if b[i] == 0xff {
				b[i] = 0x7f
			}
		}
	case "zero":
		for i := range b {
			b[i] = 0
		}
	case "ff":
		for i := range b {
			b[i] = 0xff
		}
	}
	return b
}

// ---------- WebP builder ----------

func riffChunk(typ string, data []byte) []byte {
	b := append([]byte(typ), le32(uint32(len(data)))...)
	b = append(b, data...)
	if len(data)%2 == 1 {
		b = append(b, 0)
	}
	return b
}

type webpOpt struct {
	kind      string // vp8 | vp8l | vp8x
	w, h      uint32
	icc       []byte
	flagICC   bool
	damage    string // "", "missing-iccp" (flag set, next chunk is not ICCP), "truncated-iccp"
	body      int
	scale     byte
	extra     string // "", "alph" (alpha plane chunk before the image data), "anmf" (animation frames)
	extraSize int
}

func buildWebP(rng *rand.Rand, o webpOpt) *mfile {
	f := &mfile{Fmt: "webp", W: o.w, H: o.h, Bits: 8, ICC: "none", Decodable: true}
	var payload []byte
	switch o.kind {
	case "vp8":
		// frame tag: key frame (bit0=0), version 0, show_frame=1, first partition size
		hdr := []byte{0x10 | byte(rng.Intn(8))<<1&0x0e, byte(rng.Intn(256)), byte(rng.Intn(256)), 0x9d, 0x01, 0x2a}
		hdr[0] &^= 1
		hdr = append(hdr, byte(o.w), byte(o.w>>8)&0x3f|o.scale<<6, byte(o.h), byte(o.h>>8)&0x3f|o.scale<<6)
		data := append(hdr, bodyBytes(rng, o.body)...)
		payload = riffChunk("VP8 ", data)
		f.End = 12 + 8 + 10
	case "vp8l":
		w1, h1 := o.w-1, o.h-1
		bits := uint32(w1) | uint32(h1)<<14 | uint32(rng.Intn(2))<<28 // alpha bit, version 0
		data := append([]byte{0x2f}, le32(bits)...)
		data = append(data, bodyBytes(rng, o.body)...)
		payload = riffChunk("VP8L", data)
		f.End = 12 + 8 + 5
	case "vp8x":
		flags := byte(rng.Intn(256)) &^ (1 << 5)
		if o.flagICC {
			flags |= 1 << 5
		}
		x := []byte{flags, 0, 0, 0}
		x = append(x, le24(o.w-1)...)
		x = append(x, le24(o.h-1)...)
		payload = riffChunk("VP8X", x)
		f.End = 12 + 8 + 10
		if o.flagICC {
			f.HasICCRead = true
			switch o.damage {
			case "missing-iccp":
				f.ICC = "iccerr"
				f.Decodable = false
				f.End = 12 + 8 + 10 + 8
			case "truncated-iccp":
				f.ICC = "iccerr"
				f.Decodable = false
				c := riffChunk("ICCP", o.icc)
				payload = append(payload, c[:8+len(o.icc)/2]...)
				f.End = -1
				f.Data = append(append([]byte("RIFF"), le32(uint32(4+len(payload)))...), append([]byte("WEBP"), payload...)...)
				return f
			default:
				payload = append(payload, riffChunk("ICCP", o.icc)...)
				f.ICC = "data:" + hx(o.icc)
				f.End = 12 + 8 + 10 + 8 + len(o.icc)
			}
		} else if o.icc != nil {
			// an ICCP chunk without the flag: not announced, must be ignored
			payload = append(payload, riffChunk("ICCP", o.icc)...)
		}
		switch o.extra {
		case "alph":
			payload = append(payload, riffChunk("ALPH", randBytes(rng, o.extraSize))...)
			f.Decodable = false
		case "anmf":
			for k := 0; k < 3; k++ {
				payload = append(payload, riffChunk("ANMF", randBytes(rng, o.extraSize/3))...)
			}
			f.Decodable = false
		}
		// the image data proper: a VP8L chunk with matching canvas when small enough
		if o.w <= 16384 && o.h <= 16384 {
			bits := uint32(o.w-1) | uint32(o.h-1)<<14
			data := append([]byte{0x2f}, le32(bits)...)
			payload = append(payload, riffChunk("VP8L", append(data, bodyBytes(rng, o.body)...))...)
		} else {
			f.Decodable = false
			payload = append(payload, riffChunk("VP8L", randBytes(rng, o.body+5))...)
		}
	}
	b := append([]byte("RIFF"), le32(uint32(4+len(payload)))...)
	b = append(b, "WEBP"...)
	b = append(b, payload...)
	f.Data = b
	return f
}

// ---------- the standard decoders as an oracle ----------

func decodeConfig(data []byte) (format string, w, h int, ok bool) {
	defer func() {
		if r := recover(); r != nil {
			ok = false
		}
	}()
	cfg, name, err := image.DecodeConfig(bytes.NewReader(data))
	if err != nil {
		return "", 0, 0, false
	}
	return name, cfg.Width, cfg.Height, true
}

// ---------- profiles to embed ----------

func genProfile(rng *rand.Rand, size int, compressible bool) []byte {
	p := make([]byte, size)
	if compressible {
		pat := randBytes(rng, 1+rng.Intn(16))
		for i := range p {
			p[i] = pat[i%len(pat)]
		}
	} else {
		rng.Read(p)
	}
	// two times in five the payload looks like an ICC profile: 'acsp' at offset 36 and a big-endian
	// declared size that is exact, smaller than, or larger than what is embedded (the containers carry
	// the bytes they were given: what the profile says about itself must not change what is returned)
	if size >= 132 && rng.Intn(5) < 2 {
		copy(p[36:], "acsp")
		declared := uint32(size)
		switch rng.Intn(6) {
		case 0:
			declared = uint32(128 + rng.Intn(size-128))
		case 1:
			declared = uint32(size - 1 - rng.Intn(3))
		case 2:
			declared = uint32(size + 1 + rng.Intn(5000))
		case 3:
			declared = uint32(rng.Intn(128))
		}
		p[0], p[1], p[2], p[3] = byte(declared>>24), byte(declared>>16), byte(declared>>8), byte(declared)
		n := uint32(rng.Intn(4))
		p[128], p[129], p[130], p[131] = 0, 0, 0, byte(n)
	}
	return p
}

// real DQT/DHT segments from a repository JPEG
func realJPEGTables() [][]byte {
	b, err := os.ReadFile(repoDir() + "/test-images/pizza-rgb8-srgb.jpg")
	if err != nil {
		return nil
	}
	var out [][]byte
	i := 2
	for i+4 <= len(b) && b[i] == 0xff {
		m := b[i+1]
		l := int(b[i+2])<<8 | int(b[i+3])
		if i+2+l > len(b) {
			break
		}
		if m == 0xdb || m == 0xc4 {
			out = append(out, append([]byte{}, b[i:i+2+l]...))
		}
		if m == 0xda {
			break
		}
		i += 2 + l
	}
	return out
}

func seedFiles() map[string][]byte {
	out := map[string][]byte{}
	ents, _ := os.ReadDir(repoDir() + "/test-images")
	for _, e := range ents {
		if b, err := os.ReadFile(repoDir() + "/test-images/" + e.Name()); err == nil {
			out[e.Name()] = b
		}
	}
	return out
}
