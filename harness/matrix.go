package main

// C20 (3x3 algebra and the primaries matrices) and C12 (Bradford chromatic adaptation): implementation
// against an independent float64 reference, and bit-for-bit against the extracted Flocq model.

import (
	"fmt"
	"math"
	"math/rand"
	"strings"

	"github.com/mandykoh/prism/ciexyy"
	"github.com/mandykoh/prism/ciexyz"
	"github.com/mandykoh/prism/matrix"
)

func h64(x float64) string { return fmt.Sprintf("%x", math.Float64bits(x)) }
func h32(x float32) string { return fmt.Sprintf("%x", math.Float32bits(x)) }
func matHex(m matrix.Matrix3) string {
	var p []string
	for i := 0; i < 3; i++ {
		for j := 0; j < 3; j++ {
			p = append(p, h64(m[i][j]))
		}
	}
	return strings.Join(p, " ")
}
func vecHex(v matrix.Vector3) string { return h64(v[0]) + " " + h64(v[1]) + " " + h64(v[2]) }
func xyyHex(c ciexyy.Color) string   { return h32(c.X) + " " + h32(c.Y) + " " + h32(c.YY) }
func xyzHex(c ciexyz.Color) string   { return h32(c.X) + " " + h32(c.Y) + " " + h32(c.Z) }

// canonical NaN so that payloads do not matter
func canon(s string) string {
	f := strings.Fields(s)
	for i, x := range f {
		var v uint64
		fmt.Sscanf(x, "%x", &v)
		if len(x) > 8 && v&0x7ff0000000000000 == 0x7ff0000000000000 && v&0x000fffffffffffff != 0 {
			f[i] = "7ff8000000000000"
		}
	}
	return strings.Join(f, " ")
}

// ---------- independent float64 reference ----------
type m3 [3][3]float64 // row-major: m[row][col]

func fromCols(m matrix.Matrix3) m3 {
	var r m3
	for c := 0; c < 3; c++ {
		for k := 0; k < 3; k++ {
			r[k][c] = m[c][k]
		}
	}
	return r
}
func (a m3) mul(b m3) m3 {
	var r m3
	for i := 0; i < 3; i++ {
		for j := 0; j < 3; j++ {
			for k := 0; k < 3; k++ {
				r[i][j] += a[i][k] * b[k][j]
			}
		}
	}
	return r
}
func (a m3) apply(v [3]float64) [3]float64 {
	var r [3]float64
	for i := 0; i < 3; i++ {
		for k := 0; k < 3; k++ {
			r[i] += a[i][k] * v[k]
		}
	}
	return r
}

// Gauss-Jordan with partial pivoting
func (a m3) inv() (m3, bool) {
	var w [3][6]float64
	for i := 0; i < 3; i++ {
		for j := 0; j < 3; j++ {
			w[i][j] = a[i][j]
		}
		w[i][3+i] = 1
	}
	for c := 0; c < 3; c++ {
		p := c
		for r := c + 1; r < 3; r++ {
			if math.Abs(w[r][c]) > math.Abs(w[p][c]) {
				p = r
			}
		}
		if w[p][c] == 0 {
			return m3{}, false
		}
		w[c], w[p] = w[p], w[c]
		d := w[c][c]
		for j := 0; j < 6; j++ {
			w[c][j] /= d
		}
		for r := 0; r < 3; r++ {
			if r != c {
				f := w[r][c]
				for j := 0; j < 6; j++ {
					w[r][j] -= f * w[c][j]
				}
			}
		}
	}
	var r m3
	for i := 0; i < 3; i++ {
		for j := 0; j < 3; j++ {
			r[i][j] = w[i][3+j]
		}
	}
	return r, true
}
func (a m3) norm() float64 {
	n := 0.0
	for i := 0; i < 3; i++ {
		s := 0.0
		for j := 0; j < 3; j++ {
			s += math.Abs(a[i][j])
		}
		n = math.Max(n, s)
	}
	return n
}
func maxDiff(a, b m3) float64 {
	d := 0.0
	for i := 0; i < 3; i++ {
		for j := 0; j < 3; j++ {
			d = math.Max(d, math.Abs(a[i][j]-b[i][j]))
		}
	}
	return d
}

var ident3 = m3{{1, 0, 0}, {0, 1, 0}, {0, 0, 1}}

func xyzRef(c ciexyy.Color) [3]float64 {
	x, y, Y := float64(c.X), float64(c.Y), float64(c.YY)
	return [3]float64{x * Y / y, Y, (1 - x - y) * Y / y}
}

type rgbSpace struct {
	name       string
	r, g, b, w ciexyy.Color
}

func xy(x, y float32) ciexyy.Color { return ciexyy.Color{X: x, Y: y, YY: 1} }

var d65, d50, illC, illE = xy(0.3127, 0.3290), xy(0.3457, 0.3585), xy(0.3101, 0.3162), xy(1.0/3, 1.0/3)
var publishedSpaces = []rgbSpace{
	{"sRGB", xy(0.64, 0.33), xy(0.30, 0.60), xy(0.15, 0.06), d65},
	{"AdobeRGB", xy(0.64, 0.33), xy(0.21, 0.71), xy(0.15, 0.06), d65},
	{"ProPhoto", xy(0.7347, 0.2653), xy(0.1596, 0.8404), xy(0.0366, 0.0001), d50},
	{"DisplayP3", xy(0.68, 0.32), xy(0.265, 0.69), xy(0.15, 0.06), d65},
	{"DCI-P3", xy(0.68, 0.32), xy(0.265, 0.69), xy(0.15, 0.06), xy(0.314, 0.351)},
	{"Rec2020", xy(0.708, 0.292), xy(0.170, 0.797), xy(0.131, 0.046), d65},
	{"NTSC1953", xy(0.67, 0.33), xy(0.21, 0.71), xy(0.14, 0.08), illC},
	{"PAL/SECAM", xy(0.64, 0.33), xy(0.29, 0.60), xy(0.15, 0.06), d65},
	{"SMPTE-C", xy(0.63, 0.34), xy(0.31, 0.595), xy(0.155, 0.07), d65},
	{"AppleRGB", xy(0.625, 0.34), xy(0.28, 0.595), xy(0.155, 0.07), d65},
	{"ECI", xy(0.67, 0.33), xy(0.21, 0.71), xy(0.14, 0.08), d50},
	{"WideGamut", xy(0.735, 0.265), xy(0.115, 0.826), xy(0.157, 0.018), d50},
	{"CIE-RGB", xy(0.735, 0.265), xy(0.274, 0.717), xy(0.167, 0.009), illE},
	{"ColorMatch", xy(0.63, 0.34), xy(0.295, 0.605), xy(0.15, 0.075), d50},
	{"BestRGB", xy(0.7347, 0.2653), xy(0.215, 0.775), xy(0.13, 0.035), d50},
	{"BetaRGB", xy(0.6888, 0.3112), xy(0.1986, 0.7551), xy(0.1265, 0.0352), d50},
	{"BruceRGB", xy(0.64, 0.33), xy(0.28, 0.65), xy(0.15, 0.06), d65},
	{"DonRGB4", xy(0.696, 0.3), xy(0.215, 0.765), xy(0.13, 0.035), d50},
	{"EktaSpace", xy(0.695, 0.305), xy(0.26, 0.7), xy(0.11, 0.005), d50},
	{"ACES-AP0", xy(0.7347, 0.2653), xy(0, 1), xy(0.0001, -0.077), xy(0.32168, 0.33767)},
	{"ACES-AP1", xy(0.713, 0.293), xy(0.165, 0.83), xy(0.128, 0.044), xy(0.32168, 0.33767)},
}

func randomTriangle(rng *rand.Rand) rgbSpace {
	for {
		p := func() ciexyy.Color { return xy(float32(0.02+0.72*rng.Float64()), float32(0.02+0.8*rng.Float64())) }
		r, g, b := p(), p(), p()
		area := 0.5 * math.Abs(float64((g.X-r.X)*(b.Y-r.Y)-(b.X-r.X)*(g.Y-r.Y)))
		if area < 0.01 || r.X+r.Y > 1 || g.X+g.Y > 1 || b.X+b.Y > 1 {
			continue
		}
		u, v := rng.Float64(), rng.Float64()
		if u+v > 1 {
			u, v = 1-u, 1-v
		}
		u, v = 0.05+0.85*u, 0.05+0.85*v
		if u+v > 0.95 {
			continue
		}
		w := xy(float32(float64(r.X)+u*float64(g.X-r.X)+v*float64(b.X-r.X)), float32(float64(r.Y)+u*float64(g.Y-r.Y)+v*float64(b.Y-r.Y)))
		// the luminance of the white (and of the primaries, which must not matter) is not always 1
		switch rng.Intn(4) {
		case 0:
			w.YY = []float32{0.5, 2, 0.18, 0.9, 1.25}[rng.Intn(5)]
		case 1:
			w.YY = float32(0.1 + 2*rng.Float64())
			r.YY, g.YY, b.YY = float32(0.2+1.3*rng.Float64()), float32(0.2+1.3*rng.Float64()), float32(0.2+1.3*rng.Float64())
		}
		return rgbSpace{"random", r, g, b, w}
	}
}

func safeMat(f func() matrix.Matrix3) (m matrix.Matrix3, panicked bool) {
	defer func() {
		if r := recover(); r != nil {
			panicked = true
		}
	}()
	return f(), false
}

func init() {
	commands["C20"] = func(c *ctx) {
		c.res.Rule = "primaries: 21 published RGB spaces and seeded random triangles of area >= 0.01 with the white strictly inside; matrices: random 3x3 with entries in [-4,4] and |det| >= 1e-3, ill-conditioned ones, and exactly singular ones built from repeated or zero columns (diagonal singular ones included); TransformTo/FromXYZForXYYPrimaries, Inverse, MulM, MulV, Transpose against an independent float64 Gauss-Jordan reference (tolerance 1e-9 x condition number) and bit-for-bit against the extracted Flocq binary64 model; repeated calls with the same primaries and different whites; non-trivial = distinct input"
		rng := c.rng
		var sps []rgbSpace
		sps = append(sps, publishedSpaces...)
		n := 1500
		if c.thorough {
			n = 60000
		}
		for i := 0; i < n; i++ {
			sps = append(sps, randomTriangle(rng))
		}
		// same primaries with a different white right after (a cache keyed on primaries only would show)
		sps = append(sps, rgbSpace{"DisplayP3-D50", xy(0.68, 0.32), xy(0.265, 0.69), xy(0.15, 0.06), d50}, publishedSpaces[3], publishedSpaces[4])
		for _, s := range sps {
			in := map[string]interface{}{"space": s.name, "r": s.r, "g": s.g, "b": s.b, "white": s.w}
			to, p1 := safeMat(func() matrix.Matrix3 { return ciexyz.TransformToXYZForXYYPrimaries(s.r, s.g, s.b, s.w) })
			from, p2 := safeMat(func() matrix.Matrix3 { return ciexyz.TransformFromXYZForXYYPrimaries(s.r, s.g, s.b, s.w) })
			c.res.count("primaries", fmt.Sprint(s), true)
			if p1 || p2 {
				c.res.fail(Failure{Class: "C20:primaries:panic", Desc: "matrix generation panicked for a non-degenerate triangle", Input: in, Got: "panic", Want: "matrix"})
				continue
			}
			T, F := fromCols(to), fromCols(from)
			// reference
			P := m3{}
			for k, p := range []ciexyy.Color{s.r, s.g, s.b} {
				v := xyzRef(p)
				for i := 0; i < 3; i++ {
					P[i][k] = v[i]
				}
			}
			Pi, ok := P.inv()
			if !ok {
				continue
			}
			cond := P.norm() * Pi.norm()
			W := xyzRef(s.w)
			// ColorFromXYY works in float32: the white and the primaries the matrix is built from are
			// float32 roundings (two operations) of the exact XYZ values
			tol := 1e-9*math.Max(cond, 1) + 3*math.Pow(2, -24)*math.Max(cond, 1)
			got := T.apply([3]float64{1, 1, 1})
			for i := 0; i < 3; i++ {
				if math.Abs(got[i]-W[i]) > tol*math.Max(1, math.Abs(W[i])) {
					c.res.fail(Failure{Class: "C20:primaries:white", Desc: "RGB->XYZ matrix does not map (1,1,1) to the white point", Input: in, Got: fmt.Sprint(got), Want: fmt.Sprint(W)})
					break
				}
			}
			for k, p := range []ciexyy.Color{s.r, s.g, s.b} {
				e := [3]float64{}
				e[k] = 1
				v := T.apply(e)
				sum := v[0] + v[1] + v[2]
				if math.Abs(v[0]/sum-float64(p.X)) > tol || math.Abs(v[1]/sum-float64(p.Y)) > tol {
					c.res.fail(Failure{Class: "C20:primaries:chromaticity", Desc: fmt.Sprintf("unit primary %d does not map to that primary's chromaticity", k), Input: in, Got: fmt.Sprint(v[0]/sum, v[1]/sum), Want: fmt.Sprint(p.X, p.Y)})
				}
			}
			Ti, _ := T.inv()
			condT := T.norm() * Ti.norm()
			if d := maxDiff(F.mul(T), ident3); d > 1e-9*math.Max(condT, 1) {
				c.res.fail(Failure{Class: "C20:primaries:inverse", Desc: "XYZ->RGB times RGB->XYZ is not the identity within 1e-9 x condition number", Input: in, Got: fmt.Sprint(d), Want: fmt.Sprintf("<= %g", 1e-9*condT)})
			}
			if c.runner != nil {
				args := xyyHex(s.r) + " " + xyyHex(s.g) + " " + xyyHex(s.b) + " " + xyyHex(s.w)
				for _, q := range [][2]string{{"to_xyz", matHex(to)}, {"from_xyz", matHex(from)}} {
					m := c.runner.Ask("mat " + q[0] + " " + args)
					c.res.ModelCases++
					c.res.Streams["mat_"+q[0]]++
					if canon(m) != canon(q[1]) {
						c.res.mismatch(Mismatch{Stream: "mat_" + q[0], Input: in, Impl: q[1], Model: m})
					}
				}
			}
		}
		// plain matrices
		nm := 3000
		if c.thorough {
			nm = 100000
		}
		for i := 0; i < nm; i++ {
			var m matrix.Matrix3
			kind := "random"
			for a := 0; a < 3; a++ {
				for b := 0; b < 3; b++ {
					m[a][b] = rng.Float64()*8 - 4
					if rng.Intn(6) == 0 {
						m[a][b] = float64(rng.Intn(9) - 4)
					}
				}
			}
			// one sign for all nine entries now and then (magnitude helpers that forget Abs only show there)
			if sg := rng.Intn(8); sg < 2 {
				for a := 0; a < 3; a++ {
					for b := 0; b < 3; b++ {
						m[a][b] = math.Abs(m[a][b]) + 0.125
						if sg == 0 {
							m[a][b] = -m[a][b]
						}
					}
				}
			}
			switch rng.Intn(12) {
			case 0:
				kind = "singular-repeated-column"
				m[rng.Intn(3)] = m[(rng.Intn(2)+1)%3]
				a, b := rng.Intn(3), rng.Intn(3)
				if a != b {
					m[a] = m[b]
				} else {
					m[(a+1)%3] = m[a]
				}
			case 1:
				kind = "singular-zero-column"
				m[rng.Intn(3)] = matrix.Vector3{}
			case 2:
				kind = "singular-diagonal"
				m = matrix.Matrix3{{m[0][0], 0, 0}, {0, m[1][1], 0}, {0, 0, m[2][2]}}
				m[rng.Intn(3)] = matrix.Vector3{}
			case 3:
				kind = "diagonal"
				m = matrix.Matrix3{{m[0][0], 0, 0}, {0, m[1][1], 0}, {0, 0, m[2][2]}}
			case 4:
				kind = "zero"
				m = matrix.Matrix3{}
			case 5:
				// structure: a rotation about one axis, a block matrix 1 (+) 2x2, a symmetric matrix with one
				// off-diagonal pair made unequal - exact equalities between entries that random matrices never have
				ax := rng.Intn(3)
				th := rng.Float64() * 6.2
				cs, sn := math.Cos(th), math.Sin(th)
				i1, i2 := (ax+1)%3, (ax+2)%3
				switch rng.Intn(3) {
				case 0:
					kind = "rotation-about-axis"
					m = matrix.Matrix3{}
					m[ax][ax] = 1
					m[i1][i1], m[i2][i2], m[i1][i2], m[i2][i1] = cs, cs, sn, -sn
				case 1:
					kind = "block-1+2x2"
					sc := m[ax][ax]
					a, b2, c2, d := m[i1][i1], m[i1][i2], m[i2][i1], m[i2][i2]
					m = matrix.Matrix3{}
					m[ax][ax] = sc + 5
					m[i1][i1], m[i1][i2], m[i2][i1], m[i2][i2] = a+5, b2, c2, d+5
				default:
					kind = "symmetric-but-one-pair"
					for a := 0; a < 3; a++ {
						for b := a + 1; b < 3; b++ {
							m[b][a] = m[a][b]
						}
						m[a][a] += 9
					}
					m[i1][i2] += 0.5
				}
			}
			in := map[string]interface{}{"kind": kind, "matrix": fmt.Sprint(m)}
			c.res.count("matrix-"+kind, matHex(m), true)
			inv, panicked := safeMat(func() matrix.Matrix3 { return m.Inverse() })
			R := fromCols(m)
			Ri, ok := R.inv()
			singular := strings.HasPrefix(kind, "singular") || kind == "zero"
			if singular && !panicked {
				c.res.fail(Failure{Class: "C20:inverse:singular", Desc: "inverting an exactly singular matrix must panic (" + kind + ")", Input: in, Got: fmt.Sprint(inv), Want: "panic"})
			}
			if !singular && ok {
				det := R[0][0]*(R[1][1]*R[2][2]-R[1][2]*R[2][1]) - R[0][1]*(R[1][0]*R[2][2]-R[1][2]*R[2][0]) + R[0][2]*(R[1][0]*R[2][1]-R[1][1]*R[2][0])
				if math.Abs(det) >= 1e-3 {
					if panicked {
						c.res.fail(Failure{Class: "C20:inverse:panic", Desc: "invertible matrix made Inverse panic", Input: in, Got: "panic", Want: "inverse"})
					} else if d := maxDiff(fromCols(inv), Ri); d > 1e-9*R.norm()*Ri.norm()*Ri.norm() {
						c.res.fail(Failure{Class: "C20:inverse:value", Desc: "Inverse differs from the independent float64 inverse", Input: in, Got: fmt.Sprint(inv), Want: fmt.Sprint(Ri)})
					}
				}
			}
			var o matrix.Matrix3
			for a := 0; a < 3; a++ {
				for b := 0; b < 3; b++ {
					o[a][b] = rng.Float64()*8 - 4
				}
			}
			v := matrix.Vector3{rng.Float64()*4 - 2, rng.Float64()*4 - 2, rng.Float64()*4 - 2}
			prod := m.MulM(o)
			if d := maxDiff(fromCols(prod), R.mul(fromCols(o))); d > 1e-12*(1+R.norm()*fromCols(o).norm()) {
				c.res.fail(Failure{Class: "C20:mulm", Desc: "MulM differs from the textbook product", Input: in, Got: fmt.Sprint(prod), Want: fmt.Sprint(R.mul(fromCols(o)))})
			}
			mv := m.MulV(v)
			rv := R.apply([3]float64{v[0], v[1], v[2]})
			if math.Abs(mv[0]-rv[0])+math.Abs(mv[1]-rv[1])+math.Abs(mv[2]-rv[2]) > 1e-12*(1+R.norm()*4) {
				c.res.fail(Failure{Class: "C20:mulv", Desc: "MulV differs from the textbook product", Input: in, Got: fmt.Sprint(mv), Want: fmt.Sprint(rv)})
			}
			tr := m.Transpose()
			for a := 0; a < 3; a++ {
				for b := 0; b < 3; b++ {
					if tr[a][b] != m[b][a] {
						c.res.fail(Failure{Class: "C20:transpose", Desc: "Transpose is not the transpose", Input: in, Got: fmt.Sprint(tr), Want: "m[b][a]"})
					}
				}
			}
			if c.runner != nil {
				want := "panic"
				if !panicked {
					want = matHex(inv)
				}
				qs := [][2]string{{"inverse " + matHex(m), want}, {"mulm " + matHex(m) + " " + matHex(o), matHex(prod)}, {"mulv " + matHex(m) + " " + vecHex(v), vecHex(mv)}, {"transpose " + matHex(m), matHex(tr)}}
				for _, q := range qs {
					mo := c.runner.Ask("mat " + q[0])
					name := "mat_" + strings.Fields(q[0])[0]
					c.res.ModelCases++
					c.res.Streams[name]++
					if i%60 == 0 && (name == "mat_inverse" || name == "mat_mulv") && mo != "panic" {
						// cross-check of the extraction (Flocq binary64 in OCaml) against the kernel
						dec := func(hs []string) []string {
							var out []string
							for _, h := range hs {
								var v uint64
								fmt.Sscanf(h, "%x", &v)
								out = append(out, fmt.Sprintf("f64_of_bits %d", v))
							}
							return out
						}
						bits := func(hs []string) string {
							var out []string
							for _, h := range hs {
								var v uint64
								fmt.Sscanf(h, "%x", &v)
								out = append(out, fmt.Sprint(v))
							}
							return "[" + strings.Join(out, "; ") + "]"
						}
						a := dec(strings.Fields(q[0])[1:])
						mat := fmt.Sprintf("(M (V (%s) (%s) (%s)) (V (%s) (%s) (%s)) (V (%s) (%s) (%s)))", a[0], a[1], a[2], a[3], a[4], a[5], a[6], a[7], a[8])
						if name == "mat_inverse" {
							xcheck(name, 8, fmt.Sprintf("match inverseF %s with Some r => map bits64 [v0 (c0 r); v1 (c0 r); v2 (c0 r); v0 (c1 r); v1 (c1 r); v2 (c1 r); v0 (c2 r); v1 (c2 r); v2 (c2 r)] | None => [] end = %s", mat, bits(strings.Fields(mo))))
						} else {
							xcheck(name, 8, fmt.Sprintf("(let r := mulVF %s (V (%s) (%s) (%s)) in map bits64 [v0 r; v1 r; v2 r]) = %s", mat, a[9], a[10], a[11], bits(strings.Fields(mo))))
						}
					}
					if canon(mo) != canon(q[1]) {
						c.res.mismatch(Mismatch{Stream: name, Input: in, Impl: q[1], Model: mo})
					}
				}
			}
		}
		if st := writeXCheck(c.out+"/Gen", "From Coq Require Import List ZArith. Import ListNotations.\nFrom PrismV Require Import Num.F64 Mat.Mat3G Mat.Mat3F."); st != nil {
			c.res.GenStages = append(c.res.GenStages, st)
		}
		c.res.sample(map[string]interface{}{"space": "sRGB", "to_xyz": fmt.Sprint(ciexyz.TransformToXYZForXYYPrimaries(publishedSpaces[0].r, publishedSpaces[0].g, publishedSpaces[0].b, publishedSpaces[0].w))})
	}

	// ---------- C12 ----------
	commands["C12"] = func(c *ctx) {
		c.res.Rule = "white points: the CIE illuminants A, B, C, D50, D55, D65, D75, E, F2, F7, F11 (xyY), the library's own D50/D65 constants, points on the 2000-25000 K blackbody/daylight loci and seeded random chromaticities in [0.2,0.5]^2 whose Bradford cone responses are >= 0.1; all ordered pairs of the named ones, random pairs and triples; each adaptation applied to in-gamut, saturated, negative and out-of-range XYZ colours; xyY and XYZ constructors; compared with an independent float64 Bradford computation and bit-for-bit with the extracted Flocq model; non-trivial = distinct (pair, colour)"
		rng := c.rng
		named := map[string]ciexyy.Color{"A": xy(0.44757, 0.40745), "B": xy(0.34842, 0.35161), "C": xy(0.31006, 0.31616), "D50": xy(0.34567, 0.35850), "D55": xy(0.33242, 0.34743),
			"D65": xy(0.31271, 0.32902), "D75": xy(0.29902, 0.31485), "E": xy(1.0/3, 1.0/3), "F2": xy(0.37208, 0.37529), "F7": xy(0.31292, 0.32933), "F11": xy(0.38052, 0.37713),
			"lib-D50": ciexyy.D50, "lib-D65": ciexyy.D65}
		var wps []ciexyy.Color
		var names []string
		for _, k := range sortedKeysC(named) {
			wps = append(wps, named[k])
			names = append(names, k)
		}
		bf := m3{{0.8951, 0.2664, -0.1614}, {-0.7502, 1.7135, 0.0367}, {0.0389, -0.0685, 1.0296}}
		bfi, _ := bf.inv()
		valid := func(w ciexyy.Color) bool {
			r := bf.apply(xyzRef(w))
			return r[0] >= 0.1 && r[1] >= 0.1 && r[2] >= 0.1
		}
		n := 300
		if c.thorough {
			n = 4096
		}
		for len(wps) < len(named)+n {
			w := xy(float32(0.2+0.3*rng.Float64()), float32(0.2+0.3*rng.Float64()))
			if rng.Intn(3) == 0 { // Planckian locus approximation (Kim et al.), 2000-25000 K
				T := 2000 + 23000*rng.Float64()
				var x float64
				if T <= 4000 {
					x = -0.2661239e9/(T*T*T) - 0.2343589e6/(T*T) + 0.8776956e3/T + 0.179910
				} else {
					x = -3.0258469e9/(T*T*T) + 2.1070379e6/(T*T) + 0.2226347e3/T + 0.240390
				}
				var y float64
				switch {
				case T <= 2222:
					y = -1.1063814*x*x*x - 1.34811020*x*x + 2.18555832*x - 0.20219683
				case T <= 4000:
					y = -0.9549476*x*x*x - 1.37418593*x*x + 2.09137015*x - 0.16748867
				default:
					y = 3.0817580*x*x*x - 5.87338670*x*x + 3.75112997*x - 0.37001483
				}
				w = xy(float32(x), float32(y))
			}
			if valid(w) {
				wps = append(wps, w)
				names = append(names, "random")
			}
		}
		refAdapt := func(a, b ciexyy.Color) m3 {
			sa, sb := bf.apply(xyzRef(a)), bf.apply(xyzRef(b))
			D := m3{{sb[0] / sa[0], 0, 0}, {0, sb[1] / sa[1], 0}, {0, 0, sb[2] / sa[2]}}
			return bfi.mul(D).mul(bf)
		}
		colours := func() []ciexyz.Color {
			cs := []ciexyz.Color{{0, 0, 1}, {1, 0, 0}, {0, 1, 0}, {0.25, 0.25, 0.25}, {0.9505, 1, 1.089}, {-0.3, 0.2, 0.1}, {2, 1.5, -0.5}, {0.7977, 0.2880, 0}, {0.0313, 0.0001, 0.8251}}
			for i := 0; i < 6; i++ {
				cs = append(cs, ciexyz.Color{X: float32(rng.Float64()*3 - 0.5), Y: float32(rng.Float64()*2.5 - 0.5), Z: float32(rng.Float64()*3 - 0.5)})
			}
			return cs
		}
		pairs := [][2]int{}
		for i := 0; i < len(named); i++ {
			for j := 0; j < len(named); j++ {
				pairs = append(pairs, [2]int{i, j})
			}
		}
		for k := 0; k < n*2; k++ {
			pairs = append(pairs, [2]int{rng.Intn(len(wps)), rng.Intn(len(wps))})
		}
		// distinct but very close white points (differently rounded publications of one illuminant, daylight
		// chromaticities a few kelvin apart): A->B must still map A onto B and compose
		for k := 0; k < 60; k++ {
			base := wps[rng.Intn(len(wps))]
			d := []float32{1e-6, 1e-5, 5e-5, 1e-4, 2e-4, 3e-4, 1e-3}[k%7]
			near := xy(base.X+d*float32(rng.Intn(3)-1), base.Y+d*float32(1-2*rng.Intn(2)))
			if !valid(near) {
				continue
			}
			wps = append(wps, near)
			names = append(names, "near")
			i := len(wps) - 1
			j := 0
			for j = 0; j < len(wps); j++ {
				if wps[j] == base {
					break
				}
			}
			pairs = append(pairs, [2]int{j, i}, [2]int{i, j})
		}
		// the corner of the region where a Bradford cone response is small or negative, and whites whose
		// luminance is not 1: white-to-white, the constructors' agreement and the bit-exact model still apply
		for k, e := range []ciexyy.Color{xy(0.5, 0.5), xy(0.495, 0.495), xy(0.49, 0.5), xy(0.5, 0.49), xy(0.48, 0.499), xy(0.2, 0.2), xy(0.5, 0.2), xy(0.2, 0.5)} {
			wps = append(wps, e)
			names = append(names, "corner")
			i := len(wps) - 1
			pairs = append(pairs, [2]int{i, k % len(named)}, [2]int{k % len(named), i}, [2]int{i, i})
			if k > 0 {
				pairs = append(pairs, [2]int{i, i - 1})
			}
		}
		diag := []ciexyy.Color{xy(0.25, 0.25), xy(1.0/3, 1.0/3), xy(0.45, 0.45), xy(0.3, 0.3), xy(0.4, 0.4)}
		for k, e := range diag {
			wps = append(wps, e)
			names = append(names, "diagonal")
			i := len(wps) - 1
			if k > 0 {
				pairs = append(pairs, [2]int{i, i - 1}, [2]int{i - 1, i})
			}
			pairs = append(pairs, [2]int{i, k % len(named)})
		}
		for k := 0; k < 40; k++ {
			w := wps[rng.Intn(len(named)+n)]
			w.YY = []float32{0.5, 0.8, 2, 0.18, 1.25}[k%5]
			if k%3 == 0 {
				w.YY = float32(0.1 + 2*rng.Float64())
			}
			wps = append(wps, w)
			names = append(names, "luminance")
			i := len(wps) - 1
			pairs = append(pairs, [2]int{i, rng.Intn(len(named))}, [2]int{rng.Intn(len(named)), i}, [2]int{i, i - 1})
		}
		// the same illuminant at luminance levels whose ratio is a power of two (the XYZ vectors are then exactly
		// proportional) and at other ratios
		for k, base := range []ciexyy.Color{ciexyy.D65, ciexyy.D50, xy(0.44757, 0.40745)} {
			for _, yy := range []float32{1, 2, 0.5, 0.25, 3} {
				w := base
				w.YY = yy
				wps = append(wps, w)
				names = append(names, "level")
				i := len(wps) - 1
				if yy != 1 {
					pairs = append(pairs, [2]int{i, i - 1}, [2]int{i - 1, i}, [2]int{i, k % len(named)})
				}
			}
		}
		minResp := func(w ciexyy.Color) float64 {
			r := bf.apply(xyzRef(w))
			return math.Min(math.Abs(r[0]), math.Min(math.Abs(r[1]), math.Abs(r[2])))
		}
		apply64 := func(m matrix.Matrix3, v [3]float64) [3]float64 { return fromCols(m).apply(v) }
		for _, p := range pairs {
			a, b := wps[p[0]], wps[p[1]]
			in := map[string]interface{}{"from": names[p[0]], "to": names[p[1]], "from_xy": []float32{a.X, a.Y}, "to_xy": []float32{b.X, b.Y}}
			ad := ciexyz.AdaptBetweenXYYWhitePoints(a, b)
			adz := ciexyz.AdaptBetweenXYZWhitePoints(ciexyz.ColorFromXYY(a), ciexyz.ColorFromXYY(b))
			c.res.count("pair", fmt.Sprint(a, b), true)
			M := matrix.Matrix3(ad)
			if matHex(M) != matHex(matrix.Matrix3(adz)) {
				c.res.fail(Failure{Class: "C12:constructors", Desc: "the xyY and XYZ constructors give different adaptations", Input: in, Got: fmt.Sprint(M), Want: fmt.Sprint(matrix.Matrix3(adz))})
			}
			ref := refAdapt(a, b)
			wellConditioned := minResp(a) >= 0.1 && minResp(b) >= 0.1
			if d := maxDiff(fromCols(M), ref); wellConditioned && d > 1e-6*math.Max(1, ref.norm()) {
				c.res.fail(Failure{Class: "C12:bradford", Desc: "adaptation matrix differs from the independent float64 Bradford matrix", Input: in, Got: fmt.Sprint(fromCols(M)), Want: fmt.Sprint(ref)})
			}
			// white maps to white
			wa := ciexyz.ColorFromXYY(a)
			wb := xyzRef(b)
			got := ad.Apply(wa)
			if math.Abs(float64(got.X)-wb[0]) > 1e-6 || math.Abs(float64(got.Y)-wb[1]) > 1e-6 || math.Abs(float64(got.Z)-wb[2]) > 1e-6 {
				c.res.fail(Failure{Class: "C12:white-to-white", Desc: "source white is not mapped onto the destination white within 1e-6", Input: in, Got: fmt.Sprint(got), Want: fmt.Sprint(wb)})
			}
			back := ciexyz.AdaptBetweenXYYWhitePoints(b, a)
			if d := maxDiff(fromCols(matrix.Matrix3(back)).mul(fromCols(M)), ident3); d > 1e-6 {
				c.res.fail(Failure{Class: "C12:inverse", Desc: "A->B followed by B->A is not the identity", Input: in, Got: fmt.Sprint(d), Want: "<= 1e-6"})
			}
			if p[0] == p[1] {
				if d := maxDiff(fromCols(M), ident3); d > 1e-6 {
					c.res.fail(Failure{Class: "C12:identity", Desc: "A->A is not the identity", Input: in, Got: fmt.Sprint(fromCols(M)), Want: "identity"})
				}
			}
			third := wps[rng.Intn(len(named)+n)]
			if !wellConditioned {
				third = a
			}
			bc := ciexyz.AdaptBetweenXYYWhitePoints(b, third)
			ac := ciexyz.AdaptBetweenXYYWhitePoints(a, third)
			if d := maxDiff(fromCols(matrix.Matrix3(bc)).mul(fromCols(M)), fromCols(matrix.Matrix3(ac))); d > 1e-6 {
				c.res.fail(Failure{Class: "C12:composition", Desc: "A->B then B->C differs from A->C", Input: in, Got: fmt.Sprint(d), Want: "<= 1e-6"})
			}
			cs := colours()
			for i, col := range cs {
				out := ad.Apply(col)
				want := apply64(M, [3]float64{float64(col.X), float64(col.Y), float64(col.Z)})
				c.res.count("apply", fmt.Sprint(a, b, col), true)
				if math.Abs(float64(out.X)-want[0]) > 1e-6*(1+math.Abs(want[0])) || math.Abs(float64(out.Y)-want[1]) > 1e-6*(1+math.Abs(want[1])) || math.Abs(float64(out.Z)-want[2]) > 1e-6*(1+math.Abs(want[2])) {
					c.res.fail(Failure{Class: "C12:apply-linear", Desc: "Apply is not the linear map given by the adaptation matrix", Input: map[string]interface{}{"pair": in, "colour": col}, Got: fmt.Sprint(out), Want: fmt.Sprint(want)})
				}
				if c.runner != nil && i < 4 {
					m := c.runner.Ask("mat apply " + matHex(M) + " " + xyzHex(col))
					c.res.ModelCases++
					c.res.Streams["mat_apply"]++
					if m != xyzHex(out) {
						c.res.mismatch(Mismatch{Stream: "mat_apply", Input: map[string]interface{}{"pair": in, "colour": col}, Impl: xyzHex(out), Model: m})
					}
				}
			}
			if c.runner != nil {
				m := c.runner.Ask("mat adapt_xyy " + xyyHex(a) + " " + xyyHex(b))
				c.res.ModelCases++
				c.res.Streams["mat_adapt"]++
				if canon(m) != canon(matHex(M)) {
					c.res.mismatch(Mismatch{Stream: "mat_adapt", Input: in, Impl: matHex(M), Model: m})
				}
			}
		}
		// white points given directly as XYZ (the xyY constructor never produces some of them: an exactly neutral
		// (k,k,k), exact multiples): white-to-white and the float64 Bradford matrix
		xyzWhites := []ciexyz.Color{{X: 1, Y: 1, Z: 1}, {X: 0.5, Y: 0.5, Z: 0.5}, {X: 2, Y: 2, Z: 2}, ciexyz.D65, ciexyz.D50, {X: 1.9284, Y: 2, Z: 1.6502}, {X: 0.95047, Y: 1, Z: 1.08883},
			{X: 0.475235, Y: 0.5, Z: 0.544415}, {X: 1.09850, Y: 1, Z: 0.35585}, {X: 0.9, Y: 1, Z: 0.9}}
		for i, a := range xyzWhites {
			for j, b := range xyzWhites {
				if (i+2*j)%3 == 2 {
					continue
				}
				ad := ciexyz.AdaptBetweenXYZWhitePoints(a, b)
				in := map[string]interface{}{"from_xyz": a, "to_xyz": b}
				c.res.count("xyz-pair", fmt.Sprint(a, b), true)
				sa, sb := bf.apply([3]float64{float64(a.X), float64(a.Y), float64(a.Z)}), bf.apply([3]float64{float64(b.X), float64(b.Y), float64(b.Z)})
				ref := bfi.mul(m3{{sb[0] / sa[0], 0, 0}, {0, sb[1] / sa[1], 0}, {0, 0, sb[2] / sa[2]}}).mul(bf)
				if d := maxDiff(fromCols(matrix.Matrix3(ad)), ref); d > 1e-6*math.Max(1, ref.norm()) {
					c.res.fail(Failure{Class: "C12:bradford", Desc: "adaptation matrix (XYZ constructor) differs from the independent float64 Bradford matrix", Input: in, Got: fmt.Sprint(fromCols(matrix.Matrix3(ad))), Want: fmt.Sprint(ref)})
				}
				got := ad.Apply(a)
				if math.Abs(float64(got.X-b.X)) > 1e-6*math.Max(1, float64(b.X)) || math.Abs(float64(got.Y-b.Y)) > 1e-6*math.Max(1, float64(b.Y)) || math.Abs(float64(got.Z-b.Z)) > 1e-6*math.Max(1, float64(b.Z)) {
					c.res.fail(Failure{Class: "C12:white-to-white", Desc: "source white (given as XYZ) is not mapped onto the destination white within 1e-6", Input: in, Got: fmt.Sprint(got), Want: fmt.Sprint(b)})
				}
			}
		}
		c.res.sample(map[string]interface{}{"pair": "D65->D50", "matrix": fmt.Sprint(matrix.Matrix3(ciexyz.AdaptBetweenXYYWhitePoints(ciexyy.D65, ciexyy.D50)))})
	}
}

func sortedKeysC(m map[string]ciexyy.Color) []string {
	mm := map[string]int{}
	for k := range m {
		mm[k] = 1
	}
	return sortedKeys(mm)
}
