package main

// C11: (1) a go/ast translator from the current sources to the access IR whose synchronisation
// discipline Coq decides (Conc/Discipline.v); (2) fresh race-detector processes whose goroutines make
// their first calls together and compare every returned value with a single-threaded reference.

import (
	"fmt"
	"go/ast"
	"go/parser"
	"go/token"
	"os"
	"os/exec"
	"path/filepath"
	"sort"
	"strings"
)

type irStmt struct {
	kind string // read write once stripe unknown
	v    int
	body []irStmt
	note string
}

type translator struct {
	vars  map[string]int // "pkg.name" -> id
	names []string
	initW []irStmt
	funcs []struct {
		name string
		body []irStmt
	}
	notes []string
}

func (t *translator) id(pkg, name string) int {
	k := pkg + "." + name
	if i, ok := t.vars[k]; ok {
		return i
	}
	t.vars[k] = len(t.names)
	t.names = append(t.names, k)
	return len(t.names) - 1
}

func (t *translator) pkg(dir, pkg string) {
	fset := token.NewFileSet()
	pkgs, err := parser.ParseDir(fset, dir, func(fi os.FileInfo) bool { return !strings.HasSuffix(fi.Name(), "_test.go") }, 0)
	if err != nil {
		t.notes = append(t.notes, "parse error in "+dir+": "+err.Error())
		t.funcs = append(t.funcs, struct {
			name string
			body []irStmt
		}{pkg + ".<parse-error>", []irStmt{{kind: "unknown"}}})
		return
	}
	for _, p := range pkgs {
		pkgVars := map[string]bool{}
		onceVars := map[string]bool{}
		funcs := map[string]*ast.FuncDecl{}
		for _, f := range p.Files {
			for _, d := range f.Decls {
				switch dd := d.(type) {
				case *ast.GenDecl:
					if dd.Tok == token.VAR {
						for _, sp := range dd.Specs {
							vs := sp.(*ast.ValueSpec)
							for _, n := range vs.Names {
								pkgVars[n.Name] = true
								if se, ok := vs.Type.(*ast.SelectorExpr); ok && se.Sel.Name == "Once" {
									onceVars[n.Name] = true
								} else if len(vs.Values) > 0 {
									// an initialiser runs at package initialisation, before every call
									t.initW = append(t.initW, irStmt{kind: "write", v: t.id(pkg, n.Name)})
								} else {
									t.id(pkg, n.Name)
								}
							}
						}
					}
				case *ast.FuncDecl:
					if dd.Recv == nil {
						funcs[dd.Name.Name] = dd
					}
				}
			}
		}
		var walk func(n ast.Node, depth int, locals map[string]bool) []irStmt
		walkList := func(l []ast.Stmt, depth int, locals map[string]bool) []irStmt {
			var out []irStmt
			for _, s := range l {
				out = append(out, walk(s, depth, locals)...)
			}
			return out
		}
		walk = func(n ast.Node, depth int, locals map[string]bool) []irStmt {
			var out []irStmt
			if n == nil {
				return nil
			}
			switch x := n.(type) {
			case *ast.GoStmt, *ast.SendStmt, *ast.SelectStmt:
				return []irStmt{{kind: "unknown", note: "goroutine/channel"}}
			case *ast.AssignStmt:
				for _, r := range x.Rhs {
					out = append(out, walk(r, depth, locals)...)
				}
				for _, l := range x.Lhs {
					if id, ok := l.(*ast.Ident); ok {
						if x.Tok == token.DEFINE {
							locals[id.Name] = true
							continue
						}
						if pkgVars[id.Name] && !locals[id.Name] {
							out = append(out, irStmt{kind: "write", v: t.id(pkg, id.Name)})
							continue
						}
					}
					out = append(out, walk(l, depth, locals)...)
				}
				return out
			case *ast.CallExpr:
				// once.Do(func(){...})
				if se, ok := x.Fun.(*ast.SelectorExpr); ok {
					if id, ok2 := se.X.(*ast.Ident); ok2 && onceVars[id.Name] && se.Sel.Name == "Do" && len(x.Args) == 1 {
						var body []irStmt
						switch a := x.Args[0].(type) {
						case *ast.FuncLit:
							body = walkList(a.Body.List, depth+1, map[string]bool{})
						case *ast.Ident:
							if fd, ok3 := funcs[a.Name]; ok3 && depth < 10 {
								body = walkList(fd.Body.List, depth+1, map[string]bool{})
							} else {
								body = []irStmt{{kind: "unknown"}}
							}
						default:
							body = []irStmt{{kind: "unknown"}}
						}
						return []irStmt{{kind: "once", v: t.id(pkg, id.Name), body: body}}
					}
					// parallel.RunWorkers(par, func(workerNum, workerCount int) { for i := A + workerNum; i < B; i += workerCount {...} })
					if id, ok2 := se.X.(*ast.Ident); ok2 && id.Name == "parallel" && se.Sel.Name == "RunWorkers" && len(x.Args) == 2 {
						out = append(out, walk(x.Args[0], depth, locals)...)
						fl, ok3 := x.Args[1].(*ast.FuncLit)
						okShape := false
						if ok3 && len(fl.Type.Params.List) >= 1 && len(fl.Body.List) == 1 {
							var pn []string
							for _, f := range fl.Type.Params.List {
								for _, nm := range f.Names {
									pn = append(pn, nm.Name)
								}
							}
							if fs, ok4 := fl.Body.List[0].(*ast.ForStmt); ok4 && len(pn) == 2 {
								okShape = stripeHeader(fs, pn[0], pn[1])
								if okShape {
									out = append(out, irStmt{kind: "stripe"})
									out = append(out, walkList(fs.Body.List, depth, locals)...)
								}
							}
						}
						if !okShape {
							out = append(out, irStmt{kind: "unknown", note: "worker loop is not  for i := lo + workerNum; i < hi; i += workerCount"})
						}
						return out
					}
				}
				// package-local function: inline
				if id, ok := x.Fun.(*ast.Ident); ok {
					for _, a := range x.Args {
						out = append(out, walk(a, depth, locals)...)
					}
					if fd, ok2 := funcs[id.Name]; ok2 && fd.Body != nil {
						if depth < 10 {
							out = append(out, walkList(fd.Body.List, depth+1, map[string]bool{})...)
						} else {
							out = append(out, irStmt{kind: "unknown", note: "call depth"})
						}
					}
					return out
				}
			case *ast.Ident:
				if pkgVars[x.Name] && !locals[x.Name] && !onceVars[x.Name] {
					return []irStmt{{kind: "read", v: t.id(pkg, x.Name)}}
				}
				return nil
			case *ast.SelectorExpr:
				return walk(x.X, depth, locals)
			case *ast.FuncLit:
				return walkList(x.Body.List, depth, locals)
			}
			// generic traversal in source order
			ast.Inspect(n, func(c ast.Node) bool {
				if c == n || c == nil {
					return true
				}
				out = append(out, walk(c, depth, locals)...)
				return false
			})
			return out
		}
		var names []string
		for n := range funcs {
			names = append(names, n)
		}
		sort.Strings(names)
		for _, n := range names {
			fd := funcs[n]
			if fd.Body == nil {
				continue
			}
			if n == "init" {
				for _, s := range flattenWrites(walkList(fd.Body.List, 0, map[string]bool{})) {
					t.initW = append(t.initW, s)
				}
				continue
			}
			if !ast.IsExported(n) {
				continue
			}
			t.funcs = append(t.funcs, struct {
				name string
				body []irStmt
			}{pkg + "." + n, walkList(fd.Body.List, 0, map[string]bool{})})
		}
	}
}

// init(): everything it writes, including writes inside its once blocks, happens before every call
func flattenWrites(l []irStmt) []irStmt {
	var out []irStmt
	for _, s := range l {
		switch s.kind {
		case "write":
			out = append(out, s)
		case "once":
			out = append(out, flattenWrites(s.body)...)
		}
	}
	return out
}

func stripeHeader(fs *ast.ForStmt, workerNum, workerCount string) bool {
	as, ok := fs.Init.(*ast.AssignStmt)
	if !ok || len(as.Lhs) != 1 || len(as.Rhs) != 1 {
		return false
	}
	iv, ok := as.Lhs[0].(*ast.Ident)
	if !ok {
		return false
	}
	be, ok := as.Rhs[0].(*ast.BinaryExpr)
	if !ok || be.Op != token.ADD {
		return false
	}
	if id, ok := be.Y.(*ast.Ident); !ok || id.Name != workerNum {
		return false
	}
	lo := exprString(be.X)
	cond, ok := fs.Cond.(*ast.BinaryExpr)
	if !ok || cond.Op != token.LSS {
		return false
	}
	if id, ok := cond.X.(*ast.Ident); !ok || id.Name != iv.Name {
		return false
	}
	hi := exprString(cond.Y)
	// lo must be <rect>.Min.Y and hi the matching <rect>.Max.Y
	if !strings.HasSuffix(lo, ".Min.Y") || hi != strings.TrimSuffix(lo, ".Min.Y")+".Max.Y" {
		return false
	}
	post, ok := fs.Post.(*ast.AssignStmt)
	if !ok || post.Tok != token.ADD_ASSIGN || len(post.Lhs) != 1 || len(post.Rhs) != 1 {
		return false
	}
	if id, ok := post.Lhs[0].(*ast.Ident); !ok || id.Name != iv.Name {
		return false
	}
	if id, ok := post.Rhs[0].(*ast.Ident); !ok || id.Name != workerCount {
		return false
	}
	return true
}

func exprString(e ast.Expr) string {
	switch x := e.(type) {
	case *ast.Ident:
		return x.Name
	case *ast.SelectorExpr:
		return exprString(x.X) + "." + x.Sel.Name
	}
	return "?"
}

func coqStmts(l []irStmt) string {
	var p []string
	for _, s := range l {
		switch s.kind {
		case "read":
			p = append(p, fmt.Sprintf("SRead %d", s.v))
		case "write":
			p = append(p, fmt.Sprintf("SWrite %d", s.v))
		case "once":
			p = append(p, fmt.Sprintf("SOnce %d %s", s.v, coqStmts(s.body)))
		case "stripe":
			p = append(p, "SStripe")
		default:
			p = append(p, "SUnknown")
		}
	}
	return "[" + strings.Join(p, "; ") + "]"
}

func init() {
	commands["C11"] = func(c *ctx) {
		c.res.Rule = "static: every exported function of srgb, adobergb, prophotorgb, displayp3, linear, linear/lut, ciexyz, matrix, the root package and meta/** is translated (go/ast) to its sequence of package-level variable accesses and worker-loop headers and the IR is decided by the Coq discipline checker; dynamic: fresh race-detector processes (N in {2,8,64} goroutines, GOMAXPROCS in {1,4,16}, simultaneous and staggered first calls, both first-call orders of the lazily initialised functions, image transforms with parallelism > 1 on heights not divisible by it, in place and out of place, loaders on shared bytes), each comparing every returned value with a single-threaded reference; non-trivial = a process whose goroutines' first calls are concurrent"
		root := repoDir()
		t := &translator{vars: map[string]int{}}
		for _, d := range []string{"srgb", "adobergb", "prophotorgb", "displayp3", "linear", "linear/lut", "ciexyz", "ciexyy", "cielab", "matrix", ".", "meta", "meta/autometa", "meta/binary", "meta/icc", "meta/jpegmeta", "meta/pngmeta", "meta/webpmeta"} {
			t.pkg(filepath.Join(root, d), strings.ReplaceAll(d, "/", "_"))
		}
		gdir := c.out + "/Gen"
		os.MkdirAll(gdir, 0o755)
		var v strings.Builder
		v.WriteString("(* generated by harness/conc.go from the current sources: package-level variable accesses per exported function *)\nFrom Coq Require Import List. Import ListNotations.\nFrom PrismV Require Import Conc.Discipline.\n(* variables:\n")
		for i, n := range t.names {
			fmt.Fprintf(&v, "   %d = %s\n", i, n)
		}
		v.WriteString("*)\nDefinition conc_prog : program := {|\n  p_init := " + coqStmts(t.initW) + ";\n  p_funcs := [\n")
		for i, f := range t.funcs {
			sep := ";"
			if i == len(t.funcs)-1 {
				sep = ""
			}
			fmt.Fprintf(&v, "    {| fname := %d; fbody := %s |}%s  (* %s *)\n", i, coqStmts(f.body), sep, f.name)
		}
		fmt.Fprintf(&v, "  ];\n  p_nvars := %d |}.\n", len(t.names))
		v.WriteString("Lemma conc_prog_disciplined : disciplined conc_prog = true. Proof. vm_compute. reflexivity. Qed.\n")
		os.WriteFile(gdir+"/ConcProg.v", []byte(v.String()), 0o644)
		c.res.GenFiles = []string{"ConcProg.v"}
		lazy := 0
		for _, f := range t.funcs {
			for _, s := range f.body {
				if s.kind == "once" {
					lazy++
				}
				if s.kind == "unknown" {
					c.res.Notes = append(c.res.Notes, "unrecognised construct in "+f.name+": "+s.note)
				}
			}
		}
		c.res.Notes = append(c.res.Notes, fmt.Sprintf("translated %d exported functions, %d package-level variables, %d once-guarded blocks", len(t.funcs), len(t.names), lazy))
		c.res.Notes = append(c.res.Notes, t.notes...)
		c.res.sample(map[string]interface{}{"function": "srgb.From16Bit", "ir": irOf(t, "srgb.From16Bit")})

		// dynamic part
		vrace := os.Getenv("VERIF_ROOT") + "/build/bin/vrace"
		if _, err := os.Stat(vrace); err != nil {
			c.res.Notes = append(c.res.Notes, "race binary missing: "+err.Error())
			c.res.fail(Failure{Class: "C11:race-binary", Desc: "the race-enabled test program could not be built against the current tree", Input: "go build -race ./race", Got: "missing", Want: "binary"})
			return
		}
		reps := 2
		if c.thorough {
			reps = 25
		}
		scenarios := []string{"lut-simultaneous", "lut-staggered", "lut-orders", "images", "images-inplace", "loaders", "shared-values", "colour-math", "mixed"}
		for rep := 0; rep < reps; rep++ {
			for _, sc := range scenarios {
				for _, cfg := range [][2]int{{2, 1}, {8, 4}, {64, 16}, {8, 16}} {
					n, procs := cfg[0], cfg[1]
					if !c.thorough && (sc == "loaders" || sc == "shared-values" || sc == "mixed" || sc == "colour-math") && n == 64 {
						continue
					}
					seed := c.rng.Int63()
					cmd := exec.Command(vrace, "-scenario", sc, "-n", fmt.Sprint(n), "-seed", fmt.Sprint(seed))
					cmd.Env = append(os.Environ(), fmt.Sprintf("GOMAXPROCS=%d", procs), "GORACE=exitcode=66 halt_on_error=1", "VERIF_REPO="+root)
					out, err := cmd.CombinedOutput()
					key := fmt.Sprintf("%s n=%d GOMAXPROCS=%d seed=%d", sc, n, procs, seed)
					c.res.count("race-run:"+sc, key, true)
					in := map[string]interface{}{"command": fmt.Sprintf("GOMAXPROCS=%d GORACE='exitcode=66 halt_on_error=1' build/bin/vrace -scenario %s -n %d -seed %d", procs, sc, n, seed)}
					if err != nil {
						cls := "C11:process-failed"
						desc := "race-detector process failed"
						s := string(out)
						if strings.Contains(s, "DATA RACE") {
							cls = "C11:data-race:" + sc
							desc = "the race detector reported a data race"
						} else if strings.Contains(s, "VALUE-MISMATCH") {
							cls = "C11:value:" + sc
							desc = "a call returned a different value than when executed alone"
						}
						c.res.fail(Failure{Class: cls, Desc: desc + " (" + key + ")", Input: in, Got: short(s, 1500), Want: "no race, same values"})
					}
				}
			}
		}
	}
}

func irOf(t *translator, name string) string {
	for _, f := range t.funcs {
		if f.name == name {
			return coqStmts(f.body)
		}
	}
	return "?"
}
