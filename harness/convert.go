package main

// C15: prism.ConvertImageToNRGBA / ToRGBA / ToRGBA64 against image/draw's Draw with the Src operator.

import (
	"bytes"
	"fmt"
	"image"
	"image/color"
	"image/draw"
	"math/rand"
	"reflect"
	"runtime"

	"github.com/mandykoh/prism"
)

func srcPix(img image.Image) [][]byte {
	switch v := img.(type) {
	case *image.RGBA:
		return [][]byte{v.Pix}
	case *image.RGBA64:
		return [][]byte{v.Pix}
	case *image.NRGBA:
		return [][]byte{v.Pix}
	case *image.NRGBA64:
		return [][]byte{v.Pix}
	case *image.YCbCr:
		return [][]byte{v.Y, v.Cb, v.Cr}
	case *image.NYCbCrA:
		return [][]byte{v.Y, v.Cb, v.Cr, v.A}
	case *image.Gray:
		return [][]byte{v.Pix}
	case *image.Gray16:
		return [][]byte{v.Pix}
	case *image.CMYK:
		return [][]byte{v.Pix}
	case *image.Paletted:
		return [][]byte{v.Pix}
	case *image.Alpha:
		return [][]byte{v.Pix}
	case *image.Alpha16:
		return [][]byte{v.Pix}
	}
	return nil
}

func init() {
	commands["C15"] = func(c *ctx) {
		c.res.Rule = "input images of every standard-library type (RGBA, RGBA64, NRGBA, NRGBA64, YCbCr x 6 subsamplings as sub-images at arbitrary chroma phase, Gray, Gray16, CMYK, Paletted, Alpha, Alpha16, Uniform-backed wrapper) with random and extreme contents, offset origins and sub-images with stride > width, sizes 0x0 to 9x9, parallelism in {1,2,3,7,16,rows+5} (and 17-30 row images with parallelism up to 28 under GOMAXPROCS=2), x the three helpers; output bounds, every output byte against draw.Draw(Src) into a fresh image, identity on inputs already of the target type, input buffers unchanged; the per-pixel formulas of the model are compared with image/color on sampled (thorough: all 2^24) YCbCr triples; non-trivial = non-empty input"
		rng := c.rng
		kinds := append([]string{}, srcKinds...)
		kinds = append(kinds, "Alpha", "Alpha16", "NYCbCrA", "PalettedMixed")
		n := 2500
		if c.thorough {
			n = 60000
		}
		var jobs, tallJobs []job
		for it := 0; it < n+n/20; it++ {
			w, h := pick(rng, 0, 1, 1, 2, 3, 5, 9), pick(rng, 0, 1, 2, 3, 4, 6, 9, 10)
			tall := it >= n // more rows than processors: run afterwards with GOMAXPROCS lowered to 2
			if tall {
				w, h = 1+rng.Intn(3), 17+rng.Intn(14)
			}
			kind := kinds[rng.Intn(len(kinds))]
			r := randRect(rng, w, h)
			seed := rng.Int63()
			extreme := rng.Intn(4) == 0
			it := it
			dest := &jobs
			if tall {
				dest = &tallJobs
			}
			*dest = append(*dest, func(wk *worker) {
				lr := rand.New(rand.NewSource(seed))
				var img image.Image
				switch kind {
				case "Alpha":
					m := image.NewAlpha(r)
					lr.Read(m.Pix)
					img = m
				case "Alpha16":
					m := image.NewAlpha16(r)
					lr.Read(m.Pix)
					img = m
				case "NYCbCrA":
					// image.NewYCbCr computes empty chroma planes for subsampled images with a negative origin
					// (a standard-library limitation, as for YCbCr above): keep the origin non-negative
					if r.Min.X < 0 || r.Min.Y < 0 {
						r = r.Add(image.Pt(8, 8))
					}
					m := image.NewNYCbCrA(r, []image.YCbCrSubsampleRatio{image.YCbCrSubsampleRatio444, image.YCbCrSubsampleRatio420, image.YCbCrSubsampleRatio422}[lr.Intn(3)])
					lr.Read(m.Y)
					lr.Read(m.Cb)
					lr.Read(m.Cr)
					lr.Read(m.A)
					img = m
				case "PalettedMixed":
					// palette entries of several concrete colour types, translucent ones included
					pal := make(color.Palette, 1+lr.Intn(12))
					for i := range pal {
						a := uint8(lr.Intn(256))
						switch lr.Intn(4) {
						case 0:
							pal[i] = color.RGBA{uint8(lr.Intn(int(a) + 1)), uint8(lr.Intn(int(a) + 1)), uint8(lr.Intn(int(a) + 1)), a}
						case 1:
							pal[i] = color.NRGBA{uint8(lr.Intn(256)), uint8(lr.Intn(256)), uint8(lr.Intn(256)), a}
						case 2:
							pal[i] = color.Gray{uint8(lr.Intn(256))}
						default:
							pal[i] = color.RGBA64{uint16(lr.Intn(int(a)*257 + 1)), uint16(lr.Intn(int(a)*257 + 1)), uint16(lr.Intn(int(a)*257 + 1)), uint16(a) * 257}
						}
					}
					m := image.NewPaletted(r, pal)
					for i := range m.Pix {
						m.Pix[i] = uint8(lr.Intn(len(pal)))
					}
					img = m
				case "RGBA", "RGBA64", "NRGBA", "NRGBA64":
					// as a sub-image so that stride > width and the origin is offset
					d, _, _ := newDst(lr, kind, r, lr.Intn(2) == 0)
					img = d
				default:
					img = newSrc(lr, kind, r)
				}
				// a YCbCr image assembled by hand (a decoder's frame with padded planes): luma and chroma strides
				// need not be related the way image.NewYCbCr relates them
				if y, ok := img.(*image.YCbCr); ok && it%3 == 0 && !y.Rect.Empty() {
					padY, padC := lr.Intn(9), lr.Intn(9)
					full := image.Rect(0, 0, y.Rect.Max.X, y.Rect.Max.Y)
					// generous planes: any chroma width/height the ratio may need fits (over-allocation is legal)
					n := &image.YCbCr{SubsampleRatio: y.SubsampleRatio, YStride: full.Dx() + padY, CStride: full.Dx() + 2 + padC, Rect: full}
					n.Y = make([]byte, n.YStride*(full.Dy()+2))
					n.Cb = make([]byte, n.CStride*(full.Dy()+2))
					n.Cr = make([]byte, n.CStride*(full.Dy()+2))
					lr.Read(n.Y)
					lr.Read(n.Cb)
					lr.Read(n.Cr)
					if y.Rect.Min.X >= 0 && y.Rect.Min.Y >= 0 {
						img = n.SubImage(y.Rect)
					}
				}
				if extreme {
					for _, p := range srcPix(img) {
						v := []byte{0, 0xff, 0x80, 0x7f, 1, 0xfe}[lr.Intn(6)]
						for i := range p {
							if lr.Intn(3) != 0 {
								p[i] = v
							}
						}
					}
					if k, ok := img.(*image.Paletted); ok {
						for i := range k.Pix {
							k.Pix[i] %= uint8(len(k.Palette))
						}
					}
				}
				before := [][]byte{}
				for _, p := range srcPix(img) {
					before = append(before, append([]byte{}, p...))
				}
				var palBefore color.Palette
				if k, ok := img.(*image.Paletted); ok {
					palBefore = append(color.Palette{}, k.Palette...)
				}
				b := img.Bounds()
				pars := []int{1, 2, 3, 7, 16, b.Dy() + 5}
				if tall {
					pars = append(pars, 28)
				}
				compareAll := func(pars []int, stage string) {
					for _, par := range pars {
						for _, helper := range []string{"NRGBA", "RGBA", "RGBA64"} {
							in := map[string]interface{}{"helper": "ConvertImageTo" + helper, "input": kind, "bounds": b.String(), "parallelism": par, "seed": seed, "extreme": extreme, "case": it, "stage": stage}
							wk.res.count(helper+"<-"+kind, fmt.Sprint(it, par, helper), !b.Empty())
							var out image.Image
							var outPix []byte
							var outStride, bpp int
							var ref draw.Image
							var refPix []byte
							if callNoPanic(func() {
								switch helper {
								case "NRGBA":
									o := prism.ConvertImageToNRGBA(img, par)
									out, outPix, outStride, bpp = o, o.Pix, o.Stride, 4
									rf := image.NewNRGBA(b)
									ref, refPix = rf, rf.Pix
								case "RGBA":
									o := prism.ConvertImageToRGBA(img, par)
									out, outPix, outStride, bpp = o, o.Pix, o.Stride, 4
									rf := image.NewRGBA(b)
									ref, refPix = rf, rf.Pix
								default:
									o := prism.ConvertImageToRGBA64(img, par)
									out, outPix, outStride, bpp = o, o.Pix, o.Stride, 8
									rf := image.NewRGBA64(b)
									ref, refPix = rf, rf.Pix
								}
							}) {
								wk.res.fail(Failure{Seq: wk.seq, Class: "C15:panic:" + helper, Desc: "helper panicked", Input: in, Got: "panic", Want: "image"})
								continue
							}
							if reflect.TypeOf(img) == reflect.TypeOf(out) {
								if reflect.ValueOf(img).Pointer() != reflect.ValueOf(out).Pointer() {
									wk.res.fail(Failure{Seq: wk.seq, Class: "C15:identity:" + helper, Desc: "an input already of the target type must be returned as the same instance", Input: in, Got: "a different instance", Want: "same instance"})
								}
								continue
							}
							if out.Bounds() != b {
								wk.res.fail(Failure{Seq: wk.seq, Class: "C15:bounds:" + helper, Desc: "output bounds differ from the input's", Input: in, Got: out.Bounds().String(), Want: b.String()})
								continue
							}
							draw.Draw(ref, b, img, b.Min, draw.Src)
							// compare pixel rows (the helper allocates with NewX(bounds): stride = bpp*Dx)
							bad := -1
							if outStride != bpp*b.Dx() || len(outPix) != len(refPix) {
								bad = 0
							} else if !bytes.Equal(outPix, refPix) {
								bad = firstDiff(outPix, refPix)
							}
							if bad >= 0 {
								px := bad / bpp
								x, y := b.Min.X, b.Min.Y
								if b.Dx() > 0 {
									x, y = b.Min.X+px%b.Dx(), b.Min.Y+px/b.Dx()
								}
								wk.res.fail(Failure{Seq: wk.seq, Class: "C15:pixel:" + helper + "<-" + kind, Desc: fmt.Sprintf("pixel (%d,%d) differs from draw.Draw(Src) (%s <- %s, parallelism %d)", x, y, helper, kind, par),
									Input: in, Got: fmt.Sprint(out.At(x, y)), Want: fmt.Sprint(ref.At(x, y))})
							}
						}
					}
				}
				compareAll(pars, "first conversion")
				for i, p := range srcPix(img) {
					if !bytes.Equal(p, before[i]) {
						wk.res.fail(Failure{Seq: wk.seq, Class: "C15:input-modified", Desc: "the input image was modified", Input: map[string]interface{}{"input": kind, "seed": seed}, Got: "changed", Want: "unchanged"})
					}
				}
				if k, ok := img.(*image.Paletted); ok && !reflect.DeepEqual(k.Palette, palBefore) {
					wk.res.fail(Failure{Seq: wk.seq, Class: "C15:input-modified", Desc: "the input image's palette was modified", Input: map[string]interface{}{"input": kind, "seed": seed},
						Got: short(fmt.Sprintf("%#v", k.Palette), 160), Want: short(fmt.Sprintf("%#v", palBefore), 160)})
				}
				// the caller edits the image in place (pixels; for a paletted image also palette entries, keeping the
				// same palette slice) and converts again: the result follows the new contents
				if !b.Empty() && it%3 == 0 {
					for _, p := range srcPix(img) {
						for q := 0; q < 1+len(p)/4; q++ {
							if len(p) > 0 {
								p[lr.Intn(len(p))] ^= byte(1 + lr.Intn(255))
							}
						}
					}
					if k, ok := img.(*image.Paletted); ok {
						for i := range k.Palette {
							if lr.Intn(2) == 0 {
								k.Palette[i] = color.NRGBA{uint8(lr.Intn(256)), uint8(lr.Intn(256)), uint8(lr.Intn(256)), uint8(lr.Intn(256))}
							}
						}
						for i := range k.Pix {
							k.Pix[i] %= uint8(len(k.Palette))
						}
					}
					// premultiplied types: keep channels <= alpha so that the colour values stay valid
					switch m := img.(type) {
					case *image.RGBA:
						for i := 0; i+3 < len(m.Pix); i += 4 {
							for j := 0; j < 3; j++ {
								if m.Pix[i+j] > m.Pix[i+3] {
									m.Pix[i+j] = m.Pix[i+3]
								}
							}
						}
					case *image.RGBA64:
						for i := 0; i+7 < len(m.Pix); i += 8 {
							al := uint16(m.Pix[i+6])<<8 | uint16(m.Pix[i+7])
							for j := 0; j < 6; j += 2 {
								if uint16(m.Pix[i+j])<<8|uint16(m.Pix[i+j+1]) > al {
									m.Pix[i+j], m.Pix[i+j+1] = m.Pix[i+6], m.Pix[i+7]
								}
							}
						}
					}
					compareAll([]int{2}, "second conversion after the image was edited in place")
				}
			})
		}
		c.runJobs(jobs)
		oldProcs := runtime.GOMAXPROCS(2)
		c.runJobs(tallJobs)
		runtime.GOMAXPROCS(oldProcs)
		// the model's per-pixel formulas against image/color
		if c.runner != nil {
			nn := 20000
			if c.thorough {
				nn = 1 << 24
			}
			for i := 0; i < nn; i++ {
				v := rng.Intn(1 << 24)
				if c.thorough {
					v = i
				}
				y, cb, cr := uint8(v>>16), uint8(v>>8), uint8(v)
				r8, g8, b8 := color.YCbCrToRGB(y, cb, cr)
				r, g, b, a := color.YCbCr{Y: y, Cb: cb, Cr: cr}.RGBA()
				impl := fmt.Sprintf("%d,%d,%d %d,%d,%d,%d", r8, g8, b8, r, g, b, a)
				m := c.runner.Ask(fmt.Sprintf("ycc %d %d %d", y, cb, cr))
				c.res.ModelCases++
				c.res.Streams["ycc"]++
				if rng.Intn(400) == 0 {
					var a1, a2, a3, b1, b2, b3, b4 int
					if n, _ := fmt.Sscanf(m, "%d,%d,%d %d,%d,%d,%d", &a1, &a2, &a3, &b1, &b2, &b3, &b4); n == 7 {
						xcheck("ycc", 40, fmt.Sprintf("(ycbcr_to_rgb8 %d %d %d, ycbcr_rgba16 %d %d %d) = ((%d, %d, %d), (%d, %d, %d, %d))", y, cb, cr, y, cb, cr, a1, a2, a3, b1, b2, b3, b4))
					}
				}
				if m != impl {
					c.res.mismatch(Mismatch{Stream: "ycc", Input: []uint8{y, cb, cr}, Impl: impl, Model: m})
				}
			}
			for i := 0; i < 65536; i += 1 + rng.Intn(7) {
				ch, a := uint8(i>>8), uint8(i)
				r, _, _, _ := color.NRGBA{R: ch, A: a}.RGBA()
				m := c.runner.Ask(fmt.Sprintf("premul %d %d", ch, a))
				c.res.ModelCases++
				c.res.Streams["premul"]++
				if m != fmt.Sprint(r) {
					c.res.mismatch(Mismatch{Stream: "premul", Input: []uint8{ch, a}, Impl: fmt.Sprint(r), Model: m})
				}
				if rng.Intn(400) == 0 {
					xcheck("premul", 30, fmt.Sprintf("nrgba_premul %d %d = %s", ch, a, m))
				}
			}
			if st := writeXCheck(c.out+"/Gen", "From Coq Require Import ZArith.\nFrom PrismV Require Import Img.Convert."); st != nil {
				c.res.GenStages = append(c.res.GenStages, st)
			}
		}
		c.res.sample(map[string]interface{}{"helper": "ConvertImageToRGBA64", "input": "YCbCr420 sub-image", "parallelism": []int{1, 2, 3, 7, 16}})
	}
}
