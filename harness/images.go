package main

// C10 (and the image generators shared with C15): TransformImageColor / LineariseImage / EncodeImage
// against the per-pixel definition computed through the standard library, and against the
// extracted byte-level model.

import (
	"bytes"
	"fmt"
	"image"
	"image/color"
	"image/draw"
	"math/rand"
	"runtime"
	"strings"

	"github.com/mandykoh/prism/adobergb"
	"github.com/mandykoh/prism/displayp3"
	"github.com/mandykoh/prism/linear"
	"github.com/mandykoh/prism/prophotorgb"
	"github.com/mandykoh/prism/srgb"
)

// an opaque wrapper: same storage, but the concrete type is hidden so only the generic path applies
type wrapImage struct{ img draw.Image }

func (w wrapImage) ColorModel() color.Model     { return w.img.ColorModel() }
func (w wrapImage) Bounds() image.Rectangle     { return w.img.Bounds() }
func (w wrapImage) At(x, y int) color.Color     { return w.img.At(x, y) }
func (w wrapImage) Set(x, y int, c color.Color) { w.img.Set(x, y, c) }

type wrapRO struct{ img image.Image }

func (w wrapRO) ColorModel() color.Model { return w.img.ColorModel() }
func (w wrapRO) Bounds() image.Rectangle { return w.img.Bounds() }
func (w wrapRO) At(x, y int) color.Color { return w.img.At(x, y) }

func randRect(rng *rand.Rand, w, h int) image.Rectangle {
	x0, y0 := rng.Intn(17)-7, rng.Intn(17)-7
	return image.Rect(x0, y0, x0+w, y0+h)
}

// newDst makes a destination of the given kind whose bounds are r, as a sub-image of a larger
// parent (stride > width) when sub is set; returns the view, the parent's Pix, and the view's Pix.
func newDst(rng *rand.Rand, kind string, r image.Rectangle, sub bool) (draw.Image, []byte, []byte) {
	pr := r
	if sub {
		pr = image.Rect(r.Min.X-rng.Intn(3), r.Min.Y-rng.Intn(3), r.Max.X+rng.Intn(4), r.Max.Y+rng.Intn(3))
	}
	switch kind {
	case "RGBA64":
		p := image.NewRGBA64(pr)
		rng.Read(p.Pix)
		v := p.SubImage(r).(*image.RGBA64)
		return v, p.Pix, v.Pix
	case "RGBA":
		p := image.NewRGBA(pr)
		rng.Read(p.Pix)
		v := p.SubImage(r).(*image.RGBA)
		return v, p.Pix, v.Pix
	case "NRGBA":
		p := image.NewNRGBA(pr)
		rng.Read(p.Pix)
		v := p.SubImage(r).(*image.NRGBA)
		return v, p.Pix, v.Pix
	default:
		p := image.NewNRGBA64(pr)
		rng.Read(p.Pix)
		v := p.SubImage(r).(*image.NRGBA64)
		return v, p.Pix, v.Pix
	}
}

func viewStride(d draw.Image) int {
	switch v := d.(type) {
	case *image.RGBA64:
		return v.Stride
	case *image.RGBA:
		return v.Stride
	case *image.NRGBA:
		return v.Stride
	case *image.NRGBA64:
		return v.Stride
	}
	return 0
}

var srcKinds = []string{"RGBA64", "NRGBA64", "RGBA", "NRGBA", "YCbCr444", "YCbCr422", "YCbCr420", "YCbCr440", "YCbCr411", "YCbCr410", "Gray", "Gray16", "CMYK", "Paletted", "wrapper"}

// edge alphas for 16-bit sources: nearly opaque / nearly transparent values exercise the colour models
func edge16(rng *rand.Rand) uint16 {
	return []uint16{0, 1, 0x00ff, 0x0100, 0x7fff, 0xfeff, 0xff00, 0xfffe, 0xffff, uint16(rng.Intn(65536))}[rng.Intn(10)]
}

// Image content is not white noise: neighbouring pixels repeat, or differ in one respect only (the
// same colour more or less opaque - a shadow running into a solid area -, one channel changed).  Half
// of the RGBA-family sources get such structure in scan order.
func newSrc(rng *rand.Rand, kind string, r image.Rectangle) image.Image {
	m := newSrcNoise(rng, kind, r)
	if rng.Intn(2) == 0 {
		return m
	}
	max3 := func(a, b, c uint32) uint32 {
		if b > a {
			a = b
		}
		if c > a {
			a = c
		}
		return a
	}
	alphaVariant := func(cur, lo, full uint32) uint32 { // another alpha, not below lo
		switch rng.Intn(3) {
		case 0:
			return full
		case 1:
			return lo + uint32(rng.Intn(int(full-lo)+1))
		}
		if cur == full {
			return lo + (full-lo)/2
		}
		return full
	}
	switch img := m.(type) {
	case *image.RGBA64:
		var p color.RGBA64
		have := false
		for y := r.Min.Y; y < r.Max.Y; y++ {
			for x := r.Min.X; x < r.Max.X; x++ {
				if have && rng.Intn(2) == 0 {
					q := p
					switch rng.Intn(3) {
					case 0: // repeat
					case 1: // same channels, other alpha
						q.A = uint16(alphaVariant(uint32(p.A), max3(uint32(p.R), uint32(p.G), uint32(p.B)), 0xffff))
					default: // one channel changed
						q.G = uint16(rng.Intn(int(p.A) + 1))
					}
					img.SetRGBA64(x, y, q)
				}
				p, have = img.RGBA64At(x, y), true
			}
		}
	case *image.RGBA:
		var p color.RGBA
		have := false
		for y := r.Min.Y; y < r.Max.Y; y++ {
			for x := r.Min.X; x < r.Max.X; x++ {
				if have && rng.Intn(2) == 0 {
					q := p
					switch rng.Intn(3) {
					case 0:
					case 1:
						q.A = uint8(alphaVariant(uint32(p.A), max3(uint32(p.R), uint32(p.G), uint32(p.B)), 0xff))
					default:
						q.B = uint8(rng.Intn(int(p.A) + 1))
					}
					img.SetRGBA(x, y, q)
				}
				p, have = img.RGBAAt(x, y), true
			}
		}
	case *image.NRGBA64:
		var p color.NRGBA64
		have := false
		for y := r.Min.Y; y < r.Max.Y; y++ {
			for x := r.Min.X; x < r.Max.X; x++ {
				if have && rng.Intn(2) == 0 {
					q := p
					switch rng.Intn(3) {
					case 0:
					case 1:
						q.A = uint16(alphaVariant(uint32(p.A), 0, 0xffff))
					default:
						q.R = uint16(rng.Intn(65536))
					}
					img.SetNRGBA64(x, y, q)
				}
				p, have = img.NRGBA64At(x, y), true
			}
		}
	case *image.NRGBA:
		var p color.NRGBA
		have := false
		for y := r.Min.Y; y < r.Max.Y; y++ {
			for x := r.Min.X; x < r.Max.X; x++ {
				if have && rng.Intn(2) == 0 {
					q := p
					switch rng.Intn(3) {
					case 0:
					case 1:
						q.A = uint8(alphaVariant(uint32(p.A), 0, 0xff))
					default:
						q.G = uint8(rng.Intn(256))
					}
					img.SetNRGBA(x, y, q)
				}
				p, have = img.NRGBAAt(x, y), true
			}
		}
	}
	return m
}

func newSrcNoise(rng *rand.Rand, kind string, r image.Rectangle) image.Image {
	fill := func(p []byte) { rng.Read(p) }
	switch {
	case kind == "RGBA64":
		m := image.NewRGBA64(r)
		for y := r.Min.Y; y < r.Max.Y; y++ {
			for x := r.Min.X; x < r.Max.X; x++ {
				a := edge16(rng)
				ch := func() uint16 {
					if a == 0 {
						return 0
					}
					return uint16(rng.Intn(int(a) + 1))
				}
				m.SetRGBA64(x, y, color.RGBA64{ch(), ch(), ch(), a})
			}
		}
		return m
	case kind == "NRGBA64":
		m := image.NewNRGBA64(r)
		for y := r.Min.Y; y < r.Max.Y; y++ {
			for x := r.Min.X; x < r.Max.X; x++ {
				m.SetNRGBA64(x, y, color.NRGBA64{uint16(rng.Intn(65536)), uint16(rng.Intn(65536)), uint16(rng.Intn(65536)), edge16(rng)})
			}
		}
		return m
	case kind == "RGBA":
		m := image.NewRGBA(r)
		for y := r.Min.Y; y < r.Max.Y; y++ {
			for x := r.Min.X; x < r.Max.X; x++ {
				a := rng.Intn(256)
				m.SetRGBA(x, y, color.RGBA{uint8(rng.Intn(a + 1)), uint8(rng.Intn(a + 1)), uint8(rng.Intn(a + 1)), uint8(a)})
			}
		}
		return m
	case kind == "NRGBA":
		m := image.NewNRGBA(r)
		fill(m.Pix)
		return m
	case strings.HasPrefix(kind, "YCbCr"):
		ratio := map[string]image.YCbCrSubsampleRatio{"444": image.YCbCrSubsampleRatio444, "422": image.YCbCrSubsampleRatio422, "420": image.YCbCrSubsampleRatio420,
			"440": image.YCbCrSubsampleRatio440, "411": image.YCbCrSubsampleRatio411, "410": image.YCbCrSubsampleRatio410}[kind[5:]]
		// a sub-image of a larger YCbCr so that the origin is arbitrary w.r.t. the chroma grid
		// image.YCbCr's chroma indexing divides coordinates with truncation toward zero, so the
		// standard library itself does not support negative coordinates for subsampled images
		if r.Min.X < 0 {
			r = r.Add(image.Pt(-r.Min.X+rng.Intn(3), 0))
		}
		if r.Min.Y < 0 {
			r = r.Add(image.Pt(0, -r.Min.Y+rng.Intn(3)))
		}
		if r.Empty() {
			return image.NewYCbCr(r, ratio)
		}
		pr := image.Rect(r.Min.X-rng.Intn(r.Min.X+1), r.Min.Y-rng.Intn(r.Min.Y+1), r.Max.X+rng.Intn(3), r.Max.Y+rng.Intn(3))
		m := image.NewYCbCr(pr, ratio)
		fill(m.Y)
		fill(m.Cb)
		fill(m.Cr)
		return m.SubImage(r)
	case kind == "Gray":
		m := image.NewGray(r)
		fill(m.Pix)
		for i := range m.Pix {
			if rng.Intn(9) == 0 {
				m.Pix[i] = []byte{0, 255, 1, 254}[rng.Intn(4)]
			}
		}
		return m
	case kind == "Gray16":
		m := image.NewGray16(r)
		fill(m.Pix)
		return m
	case kind == "CMYK":
		m := image.NewCMYK(r)
		fill(m.Pix)
		return m
	case kind == "Paletted":
		pal := make(color.Palette, 1+rng.Intn(16))
		for i := range pal {
			pal[i] = color.NRGBA{uint8(rng.Intn(256)), uint8(rng.Intn(256)), uint8(rng.Intn(256)), uint8(rng.Intn(256))}
		}
		m := image.NewPaletted(r, pal)
		for i := range m.Pix {
			m.Pix[i] = uint8(rng.Intn(len(pal)))
		}
		return m
	default:
		m := image.NewNRGBA64(r)
		fill(m.Pix)
		return wrapRO{m}
	}
}

type transformCase struct {
	name string
	f    func(color.Color) color.RGBA64
	run  func(dst draw.Image, src image.Image, par int)
}

func transformCases() []transformCase {
	tc := []transformCase{
		{"srgb.LineariseImage", srgb.LineariseColor, srgb.LineariseImage},
		{"srgb.EncodeImage", srgb.EncodeColor, srgb.EncodeImage},
		{"adobergb.LineariseImage", adobergb.LineariseColor, adobergb.LineariseImage},
		{"adobergb.EncodeImage", adobergb.EncodeColor, adobergb.EncodeImage},
		{"prophotorgb.LineariseImage", prophotorgb.LineariseColor, prophotorgb.LineariseImage},
		{"prophotorgb.EncodeImage", prophotorgb.EncodeColor, prophotorgb.EncodeImage},
		{"displayp3.LineariseImage", displayp3.LineariseColor, displayp3.LineariseImage},
		{"displayp3.EncodeImage", displayp3.EncodeColor, displayp3.EncodeImage},
	}
	syn := []func(color.Color) color.RGBA64{
		func(c color.Color) color.RGBA64 {
			r, g, b, a := c.RGBA()
			return color.RGBA64{uint16(r), uint16(g), uint16(b), uint16(a)}
		},
		func(c color.Color) color.RGBA64 {
			r, g, b, a := c.RGBA()
			return color.RGBA64{uint16(b), uint16(r), uint16(g), uint16(a)}
		},
		func(c color.Color) color.RGBA64 {
			r, g, b, a := c.RGBA()
			return color.RGBA64{uint16(a - r), uint16((g * 7) % (a + 1)), uint16(b / 2), uint16(a)}
		},
		// a transform that looks at the colour value it is given (straight-alpha aware): it must receive what the
		// source's At returns, not a converted copy
		func(c color.Color) color.RGBA64 {
			switch v := c.(type) {
			case color.NRGBA:
				return color.RGBA64{uint16(v.R) * 257, uint16(v.G) * 257, uint16(v.B) * 257, uint16(v.A) * 257}
			case color.NRGBA64:
				return color.RGBA64{v.R, v.G, v.B, v.A}
			case color.Gray:
				return color.RGBA64{uint16(v.Y), 1, 2, 0xffff}
			case color.YCbCr:
				return color.RGBA64{uint16(v.Y) << 8, uint16(v.Cb) << 8, uint16(v.Cr) << 8, 0xffff}
			case color.CMYK:
				return color.RGBA64{uint16(v.C) << 8, uint16(v.M) << 8, uint16(v.Y)<<8 | uint16(v.K), 0xffff}
			}
			r, g, b, a := c.RGBA()
			return color.RGBA64{uint16(r), uint16(g), uint16(b), uint16(a)}
		},
	}
	for i, f := range syn {
		f := f
		tc = append(tc, transformCase{fmt.Sprintf("TransformImageColor(synthetic%d)", i), f,
			func(dst draw.Image, src image.Image, par int) { linear.TransformImageColor(dst, src, par, f) }})
	}
	return tc
}

func init() {
	commands["C10"] = func(c *ctx) {
		c.res.Rule = "image pairs: source type in {RGBA64, NRGBA64, RGBA, NRGBA, YCbCr x 6 subsamplings (sub-images at arbitrary chroma phase), Gray, Gray16, CMYK, Paletted, opaque wrapper} x destination in {RGBA64, RGBA, NRGBA, NRGBA64} concrete or wrapped, bounds with origins in [-7,9], empty / 1xN / Nx1 / up to 9x9, destination equal or larger, sub-images with stride > width over sentinel-filled parents, parallelism in {1,2,3,7,16,rows+5} (and 17-30 row images with parallelism up to 28 under GOMAXPROCS=2), rows in which every pixel is the transform of its left neighbour (in place), 8 real transforms + 3 synthetic per-colour functions, in-place and out-of-place, 16-bit sources with nearly opaque / nearly transparent alphas; every byte of the destination view and of its parent is compared with a reference built with the standard library's Set and with the extracted model; non-trivial = non-empty source"
		rng := c.rng
		tcs := transformCases()
		n := 4000
		if c.thorough {
			n = 40000
		}
		var jobs, tallJobs []job
		for it := 0; it < n+n/20; it++ {
			w, h := pick(rng, 0, 1, 1, 2, 3, 5, 9), pick(rng, 0, 1, 1, 2, 3, 6, 9)
			if rng.Intn(20) != 0 && (w == 0 || h == 0) {
				w, h = 1+rng.Intn(6), 1+rng.Intn(6)
			}
			if it%50 == 7 {
				// now and then an image with more pixels than an 8-bit channel has values (per-value tables, caches
				// and thresholds on the pixel count only show there)
				w, h = 17+rng.Intn(8), 16+rng.Intn(6)
			}
			tall := it >= n // more rows than processors: run afterwards with GOMAXPROCS lowered to 2
			if tall {
				w, h = 1+rng.Intn(3), 17+rng.Intn(14)
			}
			skind := srcKinds[rng.Intn(len(srcKinds))]
			dkind := []string{"RGBA64", "RGBA", "NRGBA", "NRGBA64"}[rng.Intn(4)]
			wrapped := rng.Intn(3) == 0
			inplace := rng.Intn(5) == 0
			// rows in which every pixel is the transform of its left neighbour (in-place 16-bit only)
			chain := rng.Intn(8) == 0
			if chain {
				inplace, dkind, wrapped = true, "RGBA64", false
				if w < 4 && !tall {
					w = 4 + rng.Intn(5)
				}
			}
			if inplace {
				skind = dkind
			}
			sr := randRect(rng, w, h)
			dr := randRect(rng, w+pick(rng, 0, 0, 1, 3), h+pick(rng, 0, 0, 2))
			tc := tcs[rng.Intn(len(tcs))]
			pars := []int{1, 2, 3, 7, 16, h + 5}
			if tall {
				pars = []int{1, 2, 3, 7, 16, 28, h + 5}
			}
			seed := rng.Int63()
			it := it
			dest := &jobs
			if tall {
				dest = &tallJobs
			}
			*dest = append(*dest, func(wk *worker) {
				lr := rand.New(rand.NewSource(seed))
				var results [][]byte
				for _, par := range pars {
					r2 := rand.New(rand.NewSource(seed)) // same images for every parallelism
					var src image.Image
					dst, parentPix, viewPix := newDst(r2, dkind, dr, r2.Intn(2) == 0)
					if inplace {
						// the source is the destination itself: bounds are the destination's
						src = dst
						if d64, ok := dst.(*image.RGBA64); ok && chain {
							db := d64.Bounds()
							for y := db.Min.Y; y < db.Max.Y; y++ {
								for x := db.Min.X + 1; x < db.Max.X; x++ {
									d64.SetRGBA64(x, y, tc.f(d64.At(x-1, y)))
								}
							}
						}
					} else {
						src = newSrc(r2, skind, sr)
					}
					stride := viewStride(dst)
					b := src.Bounds()
					// reference: a copy of the parent, written through the standard library's Set
					refParent := append([]byte{}, parentPix...)
					origView := append([]byte{}, viewPix...)
					refView := refParent[len(parentPix)-len(viewPix):]
					var ref draw.Image
					switch d := dst.(type) {
					case *image.RGBA64:
						ref = &image.RGBA64{Pix: refView, Stride: d.Stride, Rect: d.Rect}
					case *image.RGBA:
						ref = &image.RGBA{Pix: refView, Stride: d.Stride, Rect: d.Rect}
					case *image.NRGBA:
						ref = &image.NRGBA{Pix: refView, Stride: d.Stride, Rect: d.Rect}
					case *image.NRGBA64:
						ref = &image.NRGBA64{Pix: refView, Stride: d.Stride, Rect: d.Rect}
					}
					var pcs []string
					type pc struct {
						x, y int
						c    color.RGBA64
					}
					var cols []pc
					for y := b.Min.Y; y < b.Max.Y; y++ {
						for x := b.Min.X; x < b.Max.X; x++ {
							cols = append(cols, pc{x + dst.Bounds().Min.X - b.Min.X, y + dst.Bounds().Min.Y - b.Min.Y, tc.f(src.At(x, y))})
						}
					}
					for _, p := range cols {
						ref.Set(p.x, p.y, p.c)
						pcs = append(pcs, fmt.Sprintf("%d,%d,%d,%d,%d,%d", p.x, p.y, p.c.R, p.c.G, p.c.B, p.c.A))
					}
					var target draw.Image = dst
					var srcArg image.Image = src
					if wrapped {
						target = wrapImage{dst}
						if inplace {
							srcArg = target
						}
					}
					panicked := callNoPanic(func() { tc.run(target, srcArg, par) })
					in := map[string]interface{}{"transform": tc.name, "src": skind, "src_bounds": b.String(), "dst": dkind, "wrapped": wrapped, "dst_bounds": dst.Bounds().String(),
						"stride": stride, "parallelism": par, "in_place": inplace, "seed": seed, "case": it}
					wk.res.count(dkind+"<-"+skind, fmt.Sprint(it, par), len(cols) > 0)
					if panicked {
						wk.res.fail(Failure{Seq: wk.seq, Class: "C10:panic", Desc: "transform panicked", Input: in, Got: "panic", Want: "result"})
						continue
					}
					if !bytes.Equal(parentPix, refParent) {
						d := firstDiff(parentPix, refParent)
						cls := "C10:pixel"
						off := d - (len(parentPix) - len(viewPix))
						if off < 0 {
							cls = "C10:parent-bytes"
						}
						wk.res.fail(Failure{Seq: wk.seq, Class: cls + ":" + dkind, Desc: fmt.Sprintf("destination byte %d (view offset %d) differs from the per-pixel definition (%s, %s <- %s, parallelism %d, in-place %v, wrapped %v)", d, off, tc.name, dkind, skind, par, inplace, wrapped),
							Input: in, Got: fmt.Sprintf("%#x", parentPix[d]), Want: fmt.Sprintf("%#x", refParent[d])})
					}
					results = append(results, append([]byte{}, viewPix...))
					// the model, once per case (its result does not depend on the parallelism: theorem)
					if wk.runner != nil && par == pars[0] {
						pl := "-"
						if len(pcs) > 0 {
							pl = strings.Join(pcs, ";")
						}
						db := dst.Bounds()
						m := wk.runner.Ask(fmt.Sprintf("img_transform %s %s %d %d %d %d %d %s", dkind, hx(origView), stride, db.Min.X, db.Min.Y, db.Max.X, db.Max.Y, pl))
						wk.res.modelCase("img_transform")
						if len(origView) <= 160 && len(pcs) > 0 && len(pcs) <= 12 && it%7 == 0 {
							var items []string
							for _, p := range cols {
								items = append(items, fmt.Sprintf("((%d, %d), (%d, %d, %d, %d))", p.x, p.y, p.c.R, p.c.G, p.c.B, p.c.A))
							}
							mb := make([]byte, len(m)/2)
							fmt.Sscanf(m, "%x", &mb)
							xcheck("img_transform", 24, fmt.Sprintf("transform {| ikind := K%s; ipix := %s; istride := %d; ix0 := %d; iy0 := %d; ix1 := %d; iy1 := %d |} [%s] = %s",
								dkind, coqBytes(origView), stride, db.Min.X, db.Min.Y, db.Max.X, db.Max.Y, strings.Join(items, "; "), coqBytes(mb)))
						}
						if m != hx(viewPix) {
							wk.res.mismatch(Mismatch{Seq: wk.seq, Stream: "img_transform", Input: in, Impl: short(hx(viewPix), 200), Model: short(m, 200)})
						}
					}
				}
				for i := 1; i < len(results); i++ {
					if !bytes.Equal(results[i], results[0]) {
						wk.res.fail(Failure{Seq: wk.seq, Class: "C10:parallelism:" + dkind, Desc: fmt.Sprintf("result differs between parallelism %d and %d (%s, %s <- %s)", pars[0], pars[i], tc.name, dkind, skind),
							Input: map[string]interface{}{"transform": tc.name, "src": skind, "dst": dkind, "seed": seed, "case": it}, Got: "different bytes", Want: "identical"})
						break
					}
				}
				_ = lr
			})
		}
		c.res.sample(map[string]interface{}{"transform": "srgb.LineariseImage", "src": "YCbCr420 sub-image", "dst": "NRGBA64 sub-image of a sentinel-filled parent", "parallelism": []int{1, 2, 3, 7, 16}})
		c.runJobs(jobs)
		if st := writeXCheck(c.out+"/Gen", "From Coq Require Import List ZArith. From Coq Require Import Strings.Byte. Import ListNotations.\nFrom PrismV Require Import Img.Image."); st != nil {
			c.res.GenStages = append(c.res.GenStages, st)
		}
		oldProcs := runtime.GOMAXPROCS(2)
		c.runJobs(tallJobs)
		runtime.GOMAXPROCS(oldProcs)
	}
}
