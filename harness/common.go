// Harness for the prism verification checks: generators, implementation runs, property
// oracles, and the model/implementation correspondence through the extracted OCaml runner.
package main

import (
	"bufio"
	"crypto/sha1"
	"encoding/hex"
	"encoding/json"
	"fmt"
	"math/rand"
	"os"
	"os/exec"
	"sort"
	"strings"
	"sync"
)

// Failure is a concrete input on which the implementation breaks the property itself,
// judged by an oracle that does not involve the Coq model.
type Failure struct {
	Seq   int         `json:"seq"`
	Class string      `json:"class"` // stable identifier of the failing call site / input class
	Desc  string      `json:"desc"`
	Input interface{} `json:"input"`
	Got   string      `json:"got"`
	Want  string      `json:"want"`
}

// Mismatch is an input on which model and implementation disagree.
type Mismatch struct {
	Seq    int         `json:"seq"`
	Stream string      `json:"stream"`
	Input  interface{} `json:"input"`
	Impl   string      `json:"impl"`
	Model  string      `json:"model"`
}

type Result struct {
	Property           string         `json:"property"`
	Tier               string         `json:"tier"`
	Seed               int64          `json:"seed"`
	Evaluations        int            `json:"evaluations"`
	DistinctNontrivial int            `json:"distinct_nontrivial"`
	Rule               string         `json:"rule"`
	Samples            []interface{}  `json:"samples"`
	Hist               map[string]int `json:"hist"`
	ModelCases         int            `json:"model_cases"`
	Streams            map[string]int `json:"streams"`
	OracleFailures     []Failure      `json:"oracle_failures"`
	Mismatches         []Mismatch     `json:"mismatches"`
	Notes              []string       `json:"notes"`
	GenStages          [][]string     `json:"gen_stages"`   // generated Coq files: stages compiled in order, files of a stage in parallel
	GenParallel        []string       `json:"gen_parallel"` // independent generated Coq files (compiled in parallel)
	GenFiles           []string       `json:"gen_files"`    // generated Coq files compiled afterwards, in order

	distinct map[string]bool
	mu       sync.Mutex
}

func newResult(prop, tier string, seed int64) *Result {
	return &Result{Property: prop, Tier: tier, Seed: seed, Hist: map[string]int{}, Streams: map[string]int{},
		distinct: map[string]bool{}, OracleFailures: []Failure{}, Mismatches: []Mismatch{}, Samples: []interface{}{},
		Notes: []string{}, GenFiles: []string{}}
}

// count registers one evaluated case; key identifies it for distinctness; nontrivial says
// whether it counts towards distinct_nontrivial under the property's stated rule.
func (r *Result) count(kind, key string, nontrivial bool) {
	r.mu.Lock()
	defer r.mu.Unlock()
	if len(key) > 64 {
		h := sha1.Sum([]byte(key))
		key = string(h[:])
	}
	r.Evaluations++
	r.Hist[kind]++
	if nontrivial && !r.distinct[key] {
		r.distinct[key] = true
		r.DistinctNontrivial++
	}
}

// n evaluations on inputs that are distinct by construction (an exhaustive lattice)
func (r *Result) countBulk(kind string, n int) {
	if n <= 0 {
		return
	}
	r.mu.Lock()
	defer r.mu.Unlock()
	r.Evaluations += n
	r.Hist[kind] += n
	r.DistinctNontrivial += n
}

func (r *Result) sample(s interface{}) {
	r.mu.Lock()
	defer r.mu.Unlock()
	if len(r.Samples) < 6 {
		r.Samples = append(r.Samples, s)
	}
}

func (r *Result) fail(f Failure) {
	r.mu.Lock()
	defer r.mu.Unlock()
	if len(r.OracleFailures) < 400 {
		r.OracleFailures = append(r.OracleFailures, f)
	}
}

func (r *Result) hist(k string) {
	r.mu.Lock()
	r.Hist[k]++
	r.mu.Unlock()
}

func (r *Result) note(s string) {
	r.mu.Lock()
	if len(r.Notes) < 50 {
		r.Notes = append(r.Notes, s)
	}
	r.mu.Unlock()
}

func (r *Result) modelCase(stream string) {
	r.mu.Lock()
	r.ModelCases++
	r.Streams[stream]++
	r.mu.Unlock()
}

func (r *Result) mismatch(m Mismatch) {
	r.mu.Lock()
	defer r.mu.Unlock()
	if len(r.Mismatches) < 400 {
		r.Mismatches = append(r.Mismatches, m)
	}
}

func (r *Result) write(outdir string) {
	r.distinct = nil
	sort.SliceStable(r.OracleFailures, func(i, j int) bool { return r.OracleFailures[i].Seq < r.OracleFailures[j].Seq })
	sort.SliceStable(r.Mismatches, func(i, j int) bool { return r.Mismatches[i].Seq < r.Mismatches[j].Seq })
	if len(r.OracleFailures) > 200 {
		r.OracleFailures = r.OracleFailures[:200]
	}
	if len(r.Mismatches) > 200 {
		r.Mismatches = r.Mismatches[:200]
	}
	b, _ := json.MarshalIndent(r, "", " ")
	if err := os.WriteFile(outdir+"/result.json", b, 0o644); err != nil {
		panic(err)
	}
}

// ---------- runner coprocess ----------

type Runner struct {
	cmd *exec.Cmd
	in  *bufio.Writer
	out *bufio.Reader
	n   int
}

func startRunner(path string) *Runner {
	cmd := exec.Command(path)
	stdin, err := cmd.StdinPipe()
	if err != nil {
		panic(err)
	}
	stdout, err := cmd.StdoutPipe()
	if err != nil {
		panic(err)
	}
	cmd.Stderr = os.Stderr
	if err := cmd.Start(); err != nil {
		panic(err)
	}
	return &Runner{cmd: cmd, in: bufio.NewWriterSize(stdin, 1<<20), out: bufio.NewReaderSize(stdout, 1<<20)}
}

// Ask sends one request line and returns the reply line (without newline).
func (r *Runner) Ask(line string) string {
	r.n++
	r.in.WriteString(line)
	r.in.WriteByte('\n')
	r.in.Flush()
	s, err := r.out.ReadString('\n')
	if err != nil {
		return "RUNNER-DIED " + err.Error()
	}
	return strings.TrimRight(s, "\n")
}

func (r *Runner) Close() {
	r.in.Flush()
	r.cmd.Process.Kill()
	r.cmd.Wait()
}

// ---------- small helpers ----------

func hx(b []byte) string {
	if len(b) == 0 {
		return "-"
	}
	return hex.EncodeToString(b)
}

func unhx(s string) []byte {
	if s == "-" {
		return nil
	}
	b, err := hex.DecodeString(s)
	if err != nil {
		panic(err)
	}
	return b
}

func be32(v uint32) []byte { return []byte{byte(v >> 24), byte(v >> 16), byte(v >> 8), byte(v)} }
func be16(v uint16) []byte { return []byte{byte(v >> 8), byte(v)} }
func le32(v uint32) []byte { return []byte{byte(v), byte(v >> 8), byte(v >> 16), byte(v >> 24)} }
func le24(v uint32) []byte { return []byte{byte(v), byte(v >> 8), byte(v >> 16)} }

func randBytes(rng *rand.Rand, n int) []byte {
	b := make([]byte, n)
	rng.Read(b)
	return b
}

func pick(rng *rand.Rand, xs ...int) int { return xs[rng.Intn(len(xs))] }

func sortedKeys(m map[string]int) []string {
	ks := make([]string, 0, len(m))
	for k := range m {
		ks = append(ks, k)
	}
	sort.Strings(ks)
	return ks
}

func short(s string, n int) string {
	if len(s) <= n {
		return s
	}
	return s[:n] + fmt.Sprintf("...(%d chars)", len(s))
}

// ---------- cross-check of the extraction inside the proof assistant ----------
// A slice of the very questions the extracted (OCaml) model answered on this run is written out as Coq
// lemmas about the un-extracted definitions and decided by vm_compute in the kernel: the runner's
// answers are thereby checked against the definitions the theorems are about.
var xcheckStmts []string
var xcheckCount = map[string]int{}

var xcheckMu sync.Mutex

func xcheck(kind string, limit int, stmt string) {
	xcheckMu.Lock()
	defer xcheckMu.Unlock()
	if xcheckCount[kind] >= limit {
		return
	}
	xcheckCount[kind]++
	xcheckStmts = append(xcheckStmts, stmt)
}

func writeXCheck(gdir, imports string) []string {
	if len(xcheckStmts) == 0 {
		return nil
	}
	var b strings.Builder
	b.WriteString("(* generated: answers of the extracted model on this run, re-decided in the kernel *)\n" + imports + "\nOpen Scope Z_scope.\n")
	for i, st := range xcheckStmts {
		fmt.Fprintf(&b, "Lemma xcheck_%d : %s.\nProof. vm_compute. reflexivity. Qed.\n", i, st)
	}
	os.MkdirAll(gdir, 0o755)
	os.WriteFile(gdir+"/XCheck.v", []byte(b.String()), 0o644)
	return []string{"XCheck.v"}
}

func coqBytes(b []byte) string {
	var sb strings.Builder
	sb.WriteString("[")
	for i, x := range b {
		if i > 0 {
			sb.WriteString("; ")
		}
		fmt.Fprintf(&sb, "x%02x", x)
	}
	sb.WriteString("]%byte")
	return sb.String()
}

// the runner's "ok FMT w h bits icc" / "err" answer as a Coq term of type res mdata (None: not expressible)
func coqMeta(ans string) (string, bool) {
	f := strings.Fields(ans)
	if len(f) == 1 && f[0] == "err" {
		return "", false
	}
	if len(f) != 6 || f[0] != "ok" {
		return "", false
	}
	icc := ""
	switch {
	case f[5] == "none":
		icc = "IccNone"
	case f[5] == "iccerr":
		icc = "IccErr"
	default:
		return "", false
	}
	var w, h, bits uint64
	fmt.Sscanf(f[2], "%x", &w)
	fmt.Sscanf(f[3], "%x", &h)
	fmt.Sscanf(f[4], "%x", &bits)
	fmtc := map[string]string{"PNG": "PNG", "JPEG": "JPEG", "WebP": "WEBP", "WEBP": "WEBP"}[f[1]]
	if fmtc == "" {
		return "", false
	}
	return fmt.Sprintf("Ok {| md_format := %s; md_w := %d%%N; md_h := %d%%N; md_bits := %d%%N; md_icc := %s |}", fmtc, w, h, bits, icc), true
}
