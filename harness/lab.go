package main

// C13: CIE L*a*b* conversion against the CIE 1976 definition in float64 (math.Cbrt), and bit for bit
// against the Flocq model whose math.Pow calls are answered by the real math.Pow.

import (
	"fmt"
	"math"
	"strings"

	"github.com/mandykoh/prism/cielab"
	"github.com/mandykoh/prism/ciexyy"
	"github.com/mandykoh/prism/ciexyz"
)

func labRef(x, y, z float64, w ciexyz.Color) (float64, float64, float64) {
	const e, k = 216.0 / 24389.0, 24389.0 / 27.0
	f := func(r float64) float64 {
		if r > e {
			return math.Cbrt(r)
		}
		return (k*r + 16) / 116
	}
	fx, fy, fz := f(x/float64(w.X)), f(y/float64(w.Y)), f(z/float64(w.Z))
	return 116*fy - 16, 500 * (fx - fy), 200 * (fy - fz)
}

func (c *ctx) askPow(req string) string {
	table := map[string]string{}
	for tries := 0; tries < 20; tries++ {
		t := "-"
		if len(table) > 0 {
			var parts []string
			for k, v := range table {
				parts = append(parts, k+":"+v)
			}
			t = strings.Join(parts, ";")
		}
		rep := c.runner.Ask(req + " " + t)
		if strings.HasPrefix(rep, "NEED pow ") {
			k := strings.TrimPrefix(rep, "NEED pow ")
			var a, b uint64
			fmt.Sscanf(strings.Replace(k, ",", " ", 1), "%x %x", &a, &b)
			x, y := math.Float64frombits(a), math.Float64frombits(b)
			r := math.Pow(x, y)
			table[k] = fmt.Sprintf("%x", math.Float64bits(r))
			// the assumption the float theorems would rest on: math.Pow is accurate
			if x > 0 && !math.IsInf(x, 0) && !math.IsNaN(r) {
				var want float64
				if y == 3 {
					want = x * x * x
				} else {
					want = math.Cbrt(x)
				}
				if want != 0 && !math.IsInf(want, 0) && math.Abs(r-want) > 4e-16*math.Abs(want)+1e-300 {
					c.res.Notes = append(c.res.Notes, fmt.Sprintf("math.Pow(%g,%g)=%g deviates from reference %g", x, y, r, want))
				}
			}
			continue
		}
		return rep
	}
	return "NEED-LOOP"
}

func init() {
	commands["C13"] = func(c *ctx) {
		c.res.Rule = "XYZ in [-0.5,2]^3 and Lab in L [-10,110], a,b [-200,200] x white points D50, D65 and seeded random positive whites: a lattice, dense sweeps through the junction ratio 216/24389 +/- 1e-6 on each axis, the white and its multiples, negatives, huge and tiny finite values; ToLAB against the CIE definition in float64 (1e-3), white -> (100,0,0), neutrals -> a=b=0, L monotone in Y, XYZ->Lab->XYZ (1e-5 at unit scale), finiteness; bit for bit against the Flocq model with math.Pow as oracle; non-trivial = distinct (colour, white)"
		rng := c.rng
		whites := []ciexyz.Color{ciexyz.D50, ciexyz.D65, {X: 1, Y: 1, Z: 1}, {X: 0.5, Y: 0.5, Z: 0.5}}
		// other renditions of the standard illuminants: the ICC header's D50, the values derived from the xy
		// chromaticities, 4- and 5-digit roundings, and whites a few 1e-4 away - each is its own white
		whites = append(whites, ciexyz.Color{X: 0.9642, Y: 1, Z: 0.8249}, ciexyz.ColorFromXYY(ciexyy.D50), ciexyz.ColorFromXYY(ciexyy.D65),
			ciexyz.Color{X: 0.96422, Y: 1, Z: 0.82521}, ciexyz.Color{X: 0.9505, Y: 1, Z: 1.089}, ciexyz.Color{X: 0.9643, Y: 1.0002, Z: 0.8248},
			ciexyz.Color{X: 0.95047 + 0.0003, Y: 0.9997, Z: 1.08883 - 0.0004}, ciexyz.Color{X: 0.9642, Y: 0.99999994, Z: 0.8251})
		for i := 0; i < 12; i++ {
			whites = append(whites, ciexyz.Color{X: float32(0.3 + 1.2*rng.Float64()), Y: float32(0.3 + 1.2*rng.Float64()), Z: float32(0.3 + 1.2*rng.Float64())})
		}
		// whites related to each other by a permutation or a sign-free rearrangement of their components, placed
		// next to each other: a cache keyed on something weaker than the white itself confuses them
		whites = append(whites, ciexyz.Color{X: 0.8251, Y: 1, Z: 0.9642}, ciexyz.D50, ciexyz.Color{X: 1, Y: 1, Z: 1}, ciexyz.Color{X: 0.9, Y: 1, Z: 0.9}, ciexyz.Color{X: 0.5, Y: 1, Z: 0.5},
			ciexyz.Color{X: 0.7, Y: 0.8, Z: 0.8}, ciexyz.Color{X: 0.7, Y: 1.1, Z: 1.1}, ciexyz.Color{X: 1.08883, Y: 1, Z: 0.95047}, ciexyz.D65)
		const e = 216.0 / 24389.0
		var cols []ciexyz.Color
		n := 14
		if c.thorough {
			n = 60
		}
		for a := 0; a <= n; a++ {
			for b := 0; b <= n; b++ {
				for d := 0; d <= n; d++ {
					cols = append(cols, ciexyz.Color{X: float32(-0.5 + 2.5*float64(a)/float64(n)), Y: float32(-0.5 + 2.5*float64(b)/float64(n)), Z: float32(-0.5 + 2.5*float64(d)/float64(n))})
				}
			}
		}
		nr := 6000
		if c.thorough {
			nr = 2000000
		}
		for i := 0; i < nr; i++ {
			cols = append(cols, ciexyz.Color{X: float32(rng.Float64()*2.5 - 0.5), Y: float32(rng.Float64()*2.5 - 0.5), Z: float32(rng.Float64()*2.5 - 0.5)})
		}
		modelEvery := 9
		for wi, w := range whites {
			in0 := map[string]interface{}{"white": w}
			// the white itself and its multiples
			lw := w.ToLAB(w)
			c.res.count("white", fmt.Sprint(w), true)
			if lw.L != 100 || lw.A != 0 || lw.B != 0 {
				c.res.fail(Failure{Class: "C13:white", Desc: "the reference white does not map to (100, 0, 0)", Input: in0, Got: fmt.Sprint(lw), Want: "{100 0 0}"})
			}
			for _, m := range []float32{0.001, 0.0088, 0.009, 0.02, 0.18, 0.5, 0.9, 1.5, 2} {
				// exactly proportional colours: same ratio on the three axes when the products are exact
				g := ciexyz.Color{X: w.X * m, Y: w.Y * m, Z: w.Z * m}
				if float64(g.X)/float64(w.X) == float64(g.Y)/float64(w.Y) && float64(g.Y)/float64(w.Y) == float64(g.Z)/float64(w.Z) {
					l := g.ToLAB(w)
					c.res.count("neutral", fmt.Sprint(w, m), true)
					if l.A != 0 || l.B != 0 {
						c.res.fail(Failure{Class: "C13:neutral", Desc: "a multiple of the white has non-zero a* or b*", Input: map[string]interface{}{"white": w, "colour": g}, Got: fmt.Sprint(l), Want: "a = b = 0"})
					}
				}
			}
			// junction sweeps on each axis
			var sweep []ciexyz.Color
			for k := -40; k <= 40; k++ {
				d := float64(k) * 2.5e-8
				for axis := 0; axis < 3; axis++ {
					col := ciexyz.Color{X: 0.3 * w.X, Y: 0.3 * w.Y, Z: 0.3 * w.Z}
					switch axis {
					case 0:
						col.X = float32((e + d) * float64(w.X))
					case 1:
						col.Y = float32((e + d) * float64(w.Y))
					default:
						col.Z = float32((e + d) * float64(w.Z))
					}
					sweep = append(sweep, col)
				}
			}
			specials := []ciexyz.Color{{0, 0, 0}, {X: 1e-30, Y: 1e-30, Z: 1e-30}, {X: 1e30, Y: 1e30, Z: 1e30}, {X: -1e10, Y: 5, Z: 1e-20}, {X: math.MaxFloat32, Y: math.MaxFloat32, Z: math.MaxFloat32}, {X: -math.MaxFloat32, Y: 0, Z: 1}}
			all := append(append(append([]ciexyz.Color{}, sweep...), specials...), cols...)
			if wi >= 4 {
				all = all[:len(sweep)+len(specials)+len(cols)/8]
			}
			// monotonicity of L in Y along a fine ramp
			prevL := float32(math.Inf(-1))
			for k := 0; k <= 4000; k++ {
				y := float32(-0.2 + 2.4*float64(k)/4000)
				if k > 1900 && k < 2100 {
					y = float32((e + float64(k-2000)*1e-8) * float64(w.Y))
				}
				l := ciexyz.Color{X: 0.4, Y: y, Z: 0.2}.ToLAB(w).L
				if k > 0 && !(k == 1901 || k == 2100) && l < prevL {
					c.res.fail(Failure{Class: "C13:monotone", Desc: "L* decreases as Y increases", Input: map[string]interface{}{"white": w, "Y": y}, Got: fmt.Sprint(l, " after ", prevL), Want: "non-decreasing"})
					break
				}
				prevL = l
				if k == 1900 || k == 2099 {
					prevL = float32(math.Inf(-1))
				}
			}
			for i, col := range all {
				lab := col.ToLAB(w)
				in := map[string]interface{}{"white": w, "xyz": col}
				c.res.count("toLAB", fmt.Sprint(w, col), true)
				fin := func(v float32) bool { return !math.IsNaN(float64(v)) && !math.IsInf(float64(v), 0) }
				if !fin(lab.L) || !fin(lab.A) || !fin(lab.B) {
					cls := "C13:finite"
					if col.X < -1e34 || col.Y < -1e34 || col.Z < -1e34 {
						cls = "C13:finite-huge-negative-component"
					}
					c.res.fail(Failure{Class: cls, Desc: "a finite input produced NaN or infinity", Input: in, Got: fmt.Sprint(lab), Want: "finite"})
					continue
				}
				big := math.Abs(float64(col.X)) > 4 || math.Abs(float64(col.Y)) > 4 || math.Abs(float64(col.Z)) > 4
				if !big {
					L, A, B := labRef(float64(col.X), float64(col.Y), float64(col.Z), w)
					if math.Abs(float64(lab.L)-L) > 1e-3 || math.Abs(float64(lab.A)-A) > 1e-3 || math.Abs(float64(lab.B)-B) > 1e-3 {
						c.res.fail(Failure{Class: "C13:definition", Desc: "ToLAB differs from the CIE 1976 definition by more than 1e-3", Input: in, Got: fmt.Sprint(lab), Want: fmt.Sprint(L, A, B)})
					}
					back := ciexyz.ColorFromLAB(lab, w)
					// round trip at unit scale; the float32 Lab intermediate limits what can be recovered near black
					tol := 1e-5 * math.Max(1, math.Max(math.Abs(float64(col.X)), math.Max(math.Abs(float64(col.Y)), math.Abs(float64(col.Z)))))
					if math.Abs(float64(back.X-col.X)) > tol*float64(w.X)+tol || math.Abs(float64(back.Y-col.Y)) > tol*float64(w.Y)+tol || math.Abs(float64(back.Z-col.Z)) > tol*float64(w.Z)+tol {
						c.res.fail(Failure{Class: "C13:roundtrip", Desc: "XYZ->Lab->XYZ does not return the input within 1e-5 at unit scale", Input: in, Got: fmt.Sprint(back), Want: fmt.Sprint(col)})
					}
					if c.runner != nil && i%modelEvery == 0 {
						m := c.askPow(fmt.Sprintf("lab from %s %s %s %s", h32(lab.L), h32(lab.A), h32(lab.B), xyzHex(w)))
						c.res.ModelCases++
						c.res.Streams["lab_from"]++
						if m != xyzHex(back) {
							c.res.mismatch(Mismatch{Stream: "lab_from", Input: map[string]interface{}{"white": w, "lab": lab}, Impl: xyzHex(back), Model: m})
						}
					}
				}
				if c.runner != nil && i%modelEvery == 0 {
					m := c.askPow(fmt.Sprintf("lab to %s %s", xyzHex(col), xyzHex(w)))
					c.res.ModelCases++
					c.res.Streams["lab_to"]++
					if m != h32(lab.L)+" "+h32(lab.A)+" "+h32(lab.B) {
						c.res.mismatch(Mismatch{Stream: "lab_to", Input: in, Impl: h32(lab.L) + " " + h32(lab.A) + " " + h32(lab.B), Model: m})
					}
				}
			}
			// Lab box -> XYZ against the inverse of the definition (float64); every fourth point lies on an axis of the
			// a-b plane (a or b exactly zero, of either sign), every sixteenth is a grey
			gInv := func(t float64) float64 {
				if t*t*t > e {
					return t * t * t
				}
				return (116*t - 16) / (24389.0 / 27.0)
			}
			for i := 0; i < 3000; i++ {
				lab := cielab.Color{L: float32(-10 + 120*rng.Float64()), A: float32(-200 + 400*rng.Float64()), B: float32(-200 + 400*rng.Float64())}
				switch i % 16 {
				case 0, 8:
					lab.A = 0
				case 4:
					lab.B = 0
				case 12:
					lab.B = float32(math.Copysign(0, -1))
				case 15:
					lab.A, lab.B = 0, 0
				}
				if i%4 == 0 {
					fy := (float64(lab.L) + 16) / 116
					wantX, wantY, wantZ := gInv(float64(lab.A)/500+fy)*float64(w.X), gInv(fy)*float64(w.Y), gInv(fy-float64(lab.B)/200)*float64(w.Z)
					got := ciexyz.ColorFromLAB(lab, w)
					tol := func(v float64) float64 { return 1e-5 * math.Max(1, math.Abs(v)) }
					if math.Abs(float64(got.X)-wantX) > tol(wantX) || math.Abs(float64(got.Y)-wantY) > tol(wantY) || math.Abs(float64(got.Z)-wantZ) > tol(wantZ) {
						c.res.fail(Failure{Class: "C13:inverse", Desc: "ColorFromLAB differs from the inverse of the CIE 1976 definition by more than 1e-5 (relative above 1)", Input: map[string]interface{}{"white": w, "lab": lab},
							Got: fmt.Sprint(got), Want: fmt.Sprint(wantX, wantY, wantZ)})
					}
				}
				x := ciexyz.ColorFromLAB(lab, w)
				c.res.count("fromLAB", fmt.Sprint(w, lab), true)
				if math.IsNaN(float64(x.X+x.Y+x.Z)) || math.IsInf(float64(x.X+x.Y+x.Z), 0) {
					c.res.fail(Failure{Class: "C13:finite", Desc: "ColorFromLAB produced NaN or infinity inside the Lab box", Input: map[string]interface{}{"white": w, "lab": lab}, Got: fmt.Sprint(x), Want: "finite"})
				}
			}
		}
		c.res.sample(map[string]interface{}{"xyz": ciexyz.Color{X: 0.5, Y: 0.4, Z: 0.3}, "white": "D50", "lab": fmt.Sprint(ciexyz.Color{X: 0.5, Y: 0.4, Z: 0.3}.ToLAB(ciexyz.D50))})
	}
}
