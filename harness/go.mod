module verifharness

go 1.18

require (
	github.com/mandykoh/go-parallel v0.1.0
	github.com/mandykoh/prism v0.0.0
	golang.org/x/image v0.18.0
)

replace github.com/mandykoh/prism => /repo
