package main

// Process-configuration sweep: the lazily built tables must not depend on how many processors the
// process was given when they were first built.  A child process (this binary, subcommand tabledump)
// builds every table under GOMAXPROCS=k and writes them out; the parent compares them with its own.

import (
	"bytes"
	"encoding/binary"
	"fmt"
	"github.com/mandykoh/prism/ciexyy"
	"github.com/mandykoh/prism/ciexyz"
	"image/color"
	"math"
	"os"
	"os/exec"
	"sort"
)

func allTables() map[string][]uint32 {
	t := map[string][]uint32{}
	for _, s := range spaces {
		if s.from8 == nil {
			continue
		}
		d8 := make([]uint32, 256)
		d16 := make([]uint32, 65536)
		// the 16-bit tables first and from the top: a partially filled table shows at the end
		for v := 65535; v >= 0; v-- {
			d16[v] = math.Float32bits(s.from16(uint16(v)))
		}
		for v := 0; v < 256; v++ {
			d8[v] = math.Float32bits(s.from8(uint8(v)))
		}
		t["decode8:"+s.name], t["decode16:"+s.name] = d8, d16
	}
	// the generic constructor on opaque 16-bit greys, every space (Display P3 included)
	for _, s := range spaces {
		c16 := make([]uint32, 65536)
		for v := 0; v < 65536; v++ {
			r, _, _, _ := s.encoded(color.RGBA64{R: uint16(v), G: uint16(v), B: uint16(v), A: 0xffff})
			c16[v] = math.Float32bits(r)
		}
		t["decode-ctor16:"+s.name] = c16
	}
	e := dumpEncTables()
	for k, v := range e.t8 {
		t["encode8:"+k] = v
	}
	for k, v := range e.t16 {
		t["encode16:"+k] = v
	}
	return t
}

func tableDumpMain() {
	t := allTables()
	var names []string
	for k := range t {
		names = append(names, k)
	}
	sort.Strings(names)
	var buf bytes.Buffer
	for _, k := range names {
		fmt.Fprintf(&buf, "%s %d\n", k, len(t[k]))
		binary.Write(&buf, binary.LittleEndian, t[k])
	}
	os.Stdout.Write(buf.Bytes())
}

func parseTableDump(b []byte) map[string][]uint32 {
	t := map[string][]uint32{}
	for len(b) > 0 {
		i := bytes.IndexByte(b, '\n')
		if i < 0 {
			break
		}
		var name string
		var n int
		if _, err := fmt.Sscanf(string(b[:i]), "%s %d", &name, &n); err != nil || len(b) < i+1+4*n {
			break
		}
		v := make([]uint32, n)
		binary.Read(bytes.NewReader(b[i+1:i+1+4*n]), binary.LittleEndian, v)
		t[name] = v
		b = b[i+1+4*n:]
	}
	return t
}

// kinds: "decode" or "encode" (which tables belong to the calling property)
func gomaxprocsSweep(c *ctx, prop, kind string) {
	if os.Getenv("VERIF_PLATFORM") != "" {
		return // this process is itself the 32-bit rerun
	}
	own := allTables()
	// k = 386: the same program built for a 32-bit platform (GOARCH=386), when bin/check could build it
	bin386 := os.Getenv("VERIF_ROOT") + "/build/bin/vharness386"
	ks := []int{1, 2, 3, 5, 6, 7, 12, 24}
	if _, err := os.Stat(bin386); err == nil {
		ks = append(ks, 386)
	} else {
		c.res.Notes = append(c.res.Notes, "no GOARCH=386 build of the harness: 32-bit platform sweep skipped")
	}
	for _, k := range ks {
		cmd := exec.Command(os.Args[0], "tabledump")
		cmd.Env = append(os.Environ(), fmt.Sprintf("GOMAXPROCS=%d", k))
		if k == 386 {
			cmd = exec.Command(bin386, "tabledump")
			cmd.Env = os.Environ()
		}
		out, err := cmd.Output()
		c.res.count("gomaxprocs-sweep", fmt.Sprint(prop, kind, k), true)
		if err != nil {
			c.res.fail(Failure{Class: prop + ":gomaxprocs:process", Desc: fmt.Sprintf("building the tables under GOMAXPROCS=%d (386 = the GOARCH=386 build) failed", k), Input: map[string]interface{}{"GOMAXPROCS": k}, Got: err.Error(), Want: "tables"})
			continue
		}
		child := parseTableDump(out)
		for name, mine := range own {
			if len(name) < len(kind) || name[:len(kind)] != kind {
				continue
			}
			theirs := child[name]
			for i := range mine {
				if i >= len(theirs) || theirs[i] != mine[i] {
					got := "missing"
					if i < len(theirs) {
						got = fmt.Sprintf("%#x", theirs[i])
					}
					c.res.fail(Failure{Class: prop + ":gomaxprocs:" + name, Desc: fmt.Sprintf("table %s built in a process with GOMAXPROCS=%d (386 = the GOARCH=386 build) differs at index %d from the one built here", name, k, i),
						Input: map[string]interface{}{"GOMAXPROCS": k, "table": name, "index": i}, Got: got, Want: fmt.Sprintf("%#x", mine[i])})
					break
				}
			}
		}
	}
}

// the tables read at the start of the run and read again now (after every other space's tables have
// been built and used) must be identical: tables of different spaces do not share storage
func checkStable(c *ctx, prop, kind string, initial map[string][]uint32) {
	now := allTables()
	for name, first := range initial {
		if len(name) < len(kind) || name[:len(kind)] != kind {
			continue
		}
		again := now[name]
		c.res.count("reread", prop+name, true)
		for i := range first {
			if i >= len(again) || again[i] != first[i] {
				c.res.fail(Failure{Class: prop + ":reread:" + name, Desc: fmt.Sprintf("table %s read again after the other spaces were used differs at index %d from its first reading", name, i),
					Input: map[string]interface{}{"table": name, "index": i, "sequence": "this table, then every other space's tables, then this table again"}, Got: fmt.Sprintf("%#x", again[i]), Want: fmt.Sprintf("%#x", first[i])})
				break
			}
		}
	}
}

// ---- first calls in a fresh process ----
// An encoder (decoder) is ONE fixed function of its argument: what it returns for x must not depend
// on how many calls the process has already made.  A child process (subcommand firstcalls) makes its
// very first calls on a short list of off-grid arguments - between two table sample points, in the
// steep part of the curves, where a directly evaluated transfer function and a table look-up differ -
// then makes 200,000 further calls, then repeats the list; the parent also evaluates the list itself.

func firstCallInputs() (enc []float32, dec []uint16) {
	for i := 0; i < 160; i++ {
		k := float32(3 + 19*i) // 3 .. 3024 of 65535: slope up to 12.92 (sRGB), 16 (ProPhoto), unbounded (Adobe)
		enc = append(enc, (k+0.93)/65535, (k+0.07)/65535)
	}
	for i := 0; i < 40; i++ {
		k := float32(1 + 12*i)
		enc = append(enc, (k+0.93)/511, (k+0.46)/511, (k+0.07)/511)
	}
	enc = append(enc, 0, 1, -0.25, 1.75, 0.5, 0.999999, 1e-7)
	for i := 0; i < 64; i++ {
		dec = append(dec, uint16((i*1021+17)%65536))
	}
	return
}

func firstCallRound() []uint32 {
	enc, dec := firstCallInputs()
	var out []uint32
	for _, s := range spaces[:3] {
		for _, x := range enc {
			out = append(out, uint32(s.to16(x)))
		}
		for _, x := range enc {
			out = append(out, uint32(s.to8(x)))
		}
		for _, v := range dec {
			out = append(out, math.Float32bits(s.from16(v)), math.Float32bits(s.from8(uint8(v>>8))))
		}
	}
	return out
}

// the generic helpers called with arguments related to the built-in spaces before those spaces are first used
// (a space's primaries with another white point, the reverse of an adaptation): whatever a helper remembers
// must not leak into what the spaces compute afterwards
func firstCallsPrelude(s xyzSpace) {
	w := ciexyy.D50
	if s.w == ciexyy.D50 {
		w = ciexyy.D65
	}
	ciexyz.TransformFromXYZForXYYPrimaries(s.r, s.g, s.b, w)
	ciexyz.TransformToXYZForXYYPrimaries(s.r, s.g, s.b, w)
}

// the 18 effective coefficients of every space and one adaptation, as bit patterns; with prelude, each space is
// probed right after the helpers were called with its own primaries and another white point
func firstCallMatrices(prelude bool) []uint32 {
	var out []uint32
	for _, s := range xyzSpaces {
		if prelude {
			firstCallsPrelude(s)
		}
		to, from := probeSpace(s)
		for _, v := range to {
			out = append(out, math.Float32bits(v))
		}
		for _, v := range from {
			out = append(out, math.Float32bits(v))
		}
	}
	if prelude {
		ciexyz.AdaptBetweenXYYWhitePoints(ciexyy.D65, ciexyy.D50)
		ciexyz.AdaptBetweenXYZWhitePoints(ciexyz.D65, ciexyz.D50)
	}
	ad := ciexyz.AdaptBetweenXYYWhitePoints(ciexyy.D50, ciexyy.D65)
	for _, px := range []ciexyz.Color{{X: 1, Y: 0, Z: 0}, {X: 0, Y: 1, Z: 0}, {X: 0, Y: 0, Z: 1}} {
		o := ad.Apply(px)
		out = append(out, math.Float32bits(o.X), math.Float32bits(o.Y), math.Float32bits(o.Z))
	}
	return out
}

func firstCallsMain() {
	mats := firstCallMatrices(true)
	first := firstCallRound()
	for _, s := range spaces[:3] {
		for i := 0; i < 70000; i++ {
			x := float32(i%65536) / 65535
			s.to16(x)
			s.to8(x)
			s.from16(uint16(i))
		}
	}
	second := firstCallRound()
	var buf bytes.Buffer
	binary.Write(&buf, binary.LittleEndian, first)
	binary.Write(&buf, binary.LittleEndian, second)
	binary.Write(&buf, binary.LittleEndian, mats)
	os.Stdout.Write(buf.Bytes())
}

func firstCallsCheck(c *ctx, prop string) {
	if os.Getenv("VERIF_PLATFORM") != "" {
		return
	}
	enc, dec := firstCallInputs()
	own := firstCallRound()
	out, err := exec.Command(os.Args[0], "firstcalls").Output()
	c.res.count("first-calls", prop, true)
	ownMats := firstCallMatrices(false)
	if err == nil && len(out) == 8*len(own)+4*len(ownMats) {
		theirs := make([]uint32, len(ownMats))
		binary.Read(bytes.NewReader(out[8*len(own):]), binary.LittleEndian, theirs)
		for i := range ownMats {
			if theirs[i] != ownMats[i] {
				what := "the adaptation D50->D65"
				if i < 18*len(xyzSpaces) {
					what = "space " + xyzSpaces[i/18].name
				}
				c.res.fail(Failure{Class: prop + ":first-calls:matrices", Desc: fmt.Sprintf("coefficient %d of %s, probed in a fresh process right after the generic helpers were called with that space's primaries and another white point (and the reverse adaptation), differs from the one probed here", i%18, what),
					Input: map[string]interface{}{"history": "TransformToXYZForXYYPrimaries(space primaries, other white), AdaptBetween...(D65, D50), then the first use of the space", "coefficient": i}, Got: fmt.Sprintf("%#x", theirs[i]), Want: fmt.Sprintf("%#x", ownMats[i])})
				break
			}
		}
		out = out[:8*len(own)]
	}
	if err != nil || len(out) != 8*len(own) {
		c.res.fail(Failure{Class: prop + ":first-calls:process", Desc: "the fresh process making its first encoder/decoder calls failed", Got: fmt.Sprint(err, len(out)), Want: fmt.Sprint(8*len(own), " bytes")})
		return
	}
	first := make([]uint32, len(own))
	second := make([]uint32, len(own))
	binary.Read(bytes.NewReader(out[:4*len(own)]), binary.LittleEndian, first)
	binary.Read(bytes.NewReader(out[4*len(own):]), binary.LittleEndian, second)
	per := 2*len(enc) + 2*len(dec)
	describe := func(i int) (string, interface{}) {
		s := spaces[i/per]
		j := i % per
		switch {
		case j < len(enc):
			return s.name + ".To16Bit", enc[j]
		case j < 2*len(enc):
			return s.name + ".To8Bit", enc[j-len(enc)]
		default:
			j -= 2 * len(enc)
			if j%2 == 0 {
				return s.name + ".From16Bit", dec[j/2]
			}
			return s.name + ".From8Bit", uint8(dec[j/2] >> 8)
		}
	}
	reported := map[string]bool{}
	for i := range own {
		if first[i] == second[i] && first[i] == own[i] {
			continue
		}
		fn, arg := describe(i)
		if reported[fn] {
			continue
		}
		reported[fn] = true
		c.res.fail(Failure{Class: prop + ":first-calls:" + fn, Desc: fmt.Sprintf("%s(%v) returns %d among the first calls of a fresh process, %d after 200,000 further calls and %d in this process: the result depends on the call history", fn, arg, first[i], second[i], own[i]),
			Input: map[string]interface{}{"function": fn, "argument": arg, "history": "first calls of a fresh process, then 200,000 calls, then the same argument again"}, Got: fmt.Sprint(first[i]), Want: fmt.Sprint(second[i])})
	}
}
