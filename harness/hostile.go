package main

// C09: hostile inputs. Every length / count / offset field of every seed is driven through boundary
// values; structure-aware mutations and truncations; each call is measured (escaped panic, elapsed
// time, bytes allocated) and its outcome compared with the model's.

import (
	"bufio"
	"bytes"
	"encoding/binary"
	"fmt"
	"io"
	"os"
	"os/exec"
	"runtime"
	"runtime/debug"
	"strings"
	"time"

	"github.com/mandykoh/prism/meta"
	"github.com/mandykoh/prism/meta/icc"
)

var boundaryValues = []uint64{0, 1, 2, 7, 8, 9, 11, 12, 13, 15, 16, 127, 128, 131, 132, 133, 143, 144, 255, 256, 4095, 4096, 4097, 65533, 65534, 65535, 65536, 65537,
	0x7ffffffe, 0x7fffffff, 0x80000000, 0x80000001, 0xfffffff0, 0xfffffff3, 0xfffffff4, 0xfffffff7, 0xfffffff8, 0xfffffffc, 0xfffffffe, 0xffffffff}

type field struct {
	off, width int
	little     bool
	what       string
}

func pngFields(b []byte) []field {
	var fs []field
	i := 8
	for i+8 <= len(b) {
		l := int(binary.BigEndian.Uint32(b[i:]))
		fs = append(fs, field{i, 4, false, "png-chunk-length:" + string(b[i+4:i+8])})
		if string(b[i+4:i+8]) == "IHDR" {
			fs = append(fs, field{i + 8, 4, false, "png-width"}, field{i + 12, 4, false, "png-height"})
		}
		if l < 0 || i+12+l > len(b) || string(b[i+4:i+8]) == "IDAT" {
			break
		}
		i += 12 + l
	}
	return fs
}

func jpegFields(b []byte) []field {
	var fs []field
	i := 2
	for i+4 <= len(b) && b[i] == 0xff {
		m := b[i+1]
		l := int(b[i+2])<<8 | int(b[i+3])
		fs = append(fs, field{i + 2, 2, false, fmt.Sprintf("jpeg-segment-length:%02x", m)})
		if m == 0xe2 && i+18 <= len(b) && string(b[i+4:i+15]) == "ICC_PROFILE" {
			fs = append(fs, field{i + 16, 1, false, "jpeg-icc-seq"}, field{i + 17, 1, false, "jpeg-icc-total"})
		}
		if m == 0xc0 || m == 0xc2 {
			fs = append(fs, field{i + 5, 2, false, "jpeg-height"}, field{i + 7, 2, false, "jpeg-width"})
		}
		if m == 0xda || i+2+l > len(b) {
			break
		}
		i += 2 + l
	}
	return fs
}

func webpFields(b []byte) []field {
	fs := []field{{4, 4, true, "riff-size"}}
	i := 12
	for i+8 <= len(b) {
		l := int(binary.LittleEndian.Uint32(b[i+4:]))
		fs = append(fs, field{i + 4, 4, true, "webp-chunk-length:" + string(b[i:i+4])})
		if string(b[i:i+4]) == "VP8X" {
			fs = append(fs, field{i + 12, 3, true, "vp8x-width"}, field{i + 15, 3, true, "vp8x-height"})
		}
		if l < 0 || i+8+l > len(b) {
			break
		}
		i += 8 + l + l%2
	}
	return fs
}

func iccFields(b []byte, base int) []field {
	var fs []field
	if len(b) < 132 {
		return fs
	}
	fs = append(fs, field{base, 4, false, "icc-profile-size"}, field{base + 128, 4, false, "icc-tag-count"})
	n := int(binary.BigEndian.Uint32(b[128:]))
	for k := 0; k < n && 132+12*k+12 <= len(b); k++ {
		e := 132 + 12*k
		fs = append(fs, field{base + e + 4, 4, false, "icc-tag-offset"}, field{base + e + 8, 4, false, "icc-tag-size"})
		if string(b[e:e+4]) == "desc" {
			o := int(binary.BigEndian.Uint32(b[e+4:]))
			if o+16 <= len(b) {
				switch string(b[o : o+4]) {
				case "desc":
					fs = append(fs, field{base + o + 8, 4, false, "icc-desc-ascii-count"})
				case "mluc":
					fs = append(fs, field{base + o + 8, 4, false, "icc-mluc-record-count"}, field{base + o + 12, 4, false, "icc-mluc-record-size"})
					nr := int(binary.BigEndian.Uint32(b[o+8:]))
					for r := 0; r < nr && r < 4 && o+16+12*r+12 <= len(b); r++ {
						fs = append(fs, field{base + o + 16 + 12*r + 4, 4, false, "icc-mluc-string-length"}, field{base + o + 16 + 12*r + 8, 4, false, "icc-mluc-string-offset"})
					}
				}
			}
		}
	}
	return fs
}

func setField(b []byte, f field, v uint64) []byte {
	out := append([]byte{}, b...)
	if f.off+f.width > len(out) {
		return out
	}
	for k := 0; k < f.width; k++ {
		sh := uint(8 * k)
		if !f.little {
			sh = uint(8 * (f.width - 1 - k))
		}
		out[f.off+k] = byte(v >> sh)
	}
	return out
}

func getField(b []byte, f field) uint64 {
	var v uint64
	for k := 0; k < f.width; k++ {
		sh := uint(8 * k)
		if !f.little {
			sh = uint(8 * (f.width - 1 - k))
		}
		v |= uint64(b[f.off+k]) << sh
	}
	return v
}

func init() {
	commands["C09"] = func(c *ctx) {
		c.res.Rule = "byte strings: (a) every length/count/offset field of every seed (repository images and profile, generated PNG/JPEG/WebP with ICC, generated v2 and mluc profiles) set to 40 boundary values (0,1,8,9,12,13,...,2^31-1,2^31,2^32-16..2^32-1, original+/-1), ICC fields both standalone and embedded in each container; (b) seeded structure-aware mutations (bit flips, field swaps, splices); (c) truncations; (d) pairs of neighbouring fields x {0,1,12,2^31-1,2^32-1}^2; (e) each format's first bytes followed by 70 KB / 3 MiB / 24 MiB runs of 0xFF or 0x00; (f) ICC profiles with 300 / 3000 tags sharing one region; each through the matching loader, autometa, Data.ICCProfile and Profile.Description, measuring escaped panics, wall time against 50 ms + 2 us/byte and runtime.MemStats.TotalAlloc against 2048 x input bytes + 1 MiB; outcome compared with the model; non-trivial = distinct input bytes"
		debug.SetGCPercent(400)
		rng := c.rng
		type seed struct {
			name string
			fmt  string // png jpeg webp icc
			data []byte
		}
		var seeds []seed
		for name, b := range seedFiles() {
			f := map[string]string{"png": "png", "jpg": "jpeg", "ebp": "webp"}[name[len(name)-3:]]
			if len(b) > 700000 {
				continue
			}
			seeds = append(seeds, seed{"repo:" + name, f, b})
		}
		if b, err := os.ReadFile(repoDir() + "/test-profiles/display-p3-v4-with-v2-desc.icc"); err == nil {
			seeds = append(seeds, seed{"repo:display-p3.icc", "icc", b})
		}
		// generated profiles (v2 desc and mluc) standalone and embedded
		mkProfile := func(mluc bool) []byte {
			hdr := randBytes(rng, 128)
			copy(hdr[36:], "acsp")
			tags := []genTag{{0x77747074, randBytes(rng, 20)}, {0x63707274, randBytes(rng, 40)}}
			if mluc {
				recs := []mlucRec{{"en", "US", randText(rng, 12, 0)}, {"de", "DE", randText(rng, 9, 1)}, {"ja", "JP", randText(rng, 7, 2)}}
				if rng.Intn(2) == 0 {
					recs[0].text = append(randText(rng, 6, 3), 0xD83D) // cut off in the middle of a surrogate pair
				}
				tags = append(tags, genTag{0x64657363, mlucTag(rng, recs, 12, 0)})
			} else {
				tags = append(tags, genTag{0x64657363, descV2([]byte("hostile profile"), randBytes(rng, 30))})
			}
			return layoutProfile(rng, hdr, tags, false)
		}
		for _, ml := range []bool{false, true} {
			p := mkProfile(ml)
			nm := map[bool]string{false: "v2", true: "mluc"}[ml]
			seeds = append(seeds, seed{"gen:icc-" + nm, "icc", p})
			seeds = append(seeds, seed{"gen:png-icc-" + nm, "png", buildPNG(rng, pngOpt{w: 20, h: 10, depth: 8, ctype: 2, nAnc: 2, icc: p, iccName: "p", iccLevel: 0, iccPos: 1, body: 60, smallAnc: true}).Data})
			seeds = append(seeds, seed{"gen:jpeg-icc-" + nm, "jpeg", buildJPEG(rng, jpegOpt{w: 20, h: 10, precision: 8, ncomp: 3, nBefore: 1, nAfter: 1, icc: p, chunkSize: 300, body: 40}).Data})
			seeds = append(seeds, seed{"gen:webp-icc-" + nm, "webp", buildWebP(rng, webpOpt{kind: "vp8x", w: 20, h: 10, icc: p, flagICC: true, body: 40}).Data})
		}
		seeds = append(seeds, seed{"gen:webp-vp8", "webp", buildWebP(rng, webpOpt{kind: "vp8", w: 20, h: 10, body: 40}).Data},
			seed{"gen:webp-vp8l", "webp", buildWebP(rng, webpOpt{kind: "vp8l", w: 20, h: 10, body: 40}).Data})
		// the largest chunk counts the one-byte APP2 sequence/total fields can express, all chunks present
		var lightSeeds []seed
		for _, nch := range []int{255, 254, 128} {
			lightSeeds = append(lightSeeds, seed{fmt.Sprintf("gen:jpeg-icc-%d-chunks", nch), "jpeg",
				buildJPEG(rng, jpegOpt{w: 20, h: 10, precision: 8, ncomp: 3, nBefore: 1, nAfter: 1, icc: genProfile(rng, 3*nch, false), chunkSize: 3, body: 40, iccAfterSOF: nch == 254}).Data})
		}

		current := c.out + "/current-input.hex"
		run := func(kind, what string, s seed, data []byte) {
			if len(data) > 1<<20 && kind != "run-of-bytes" {
				return
			}
			if len(data) > 1<<20 {
				os.WriteFile(current, []byte(what+"\n"+s.name+"\n"+hx(data[:64])+"... ("+fmt.Sprint(len(data))+" bytes: "+what+")"), 0o644)
			} else {
				os.WriteFile(current, []byte(what+"\n"+s.name+"\n"+hx(data)), 0o644)
			}
			in := map[string]interface{}{"seed": s.name, "mutation": what, "bytes": len(data), "data": shortHex(data)}
			// a call that has not returned long after its budget is a hang: stop the process, the caller
			// attributes the death to current-input.hex
			wd := time.AfterFunc(60*time.Second+time.Duration(len(data))*20*time.Microsecond, func() { os.Exit(124) })
			defer wd.Stop()
			c.res.count(kind+":"+s.fmt, string(data), true)
			budgetT := 50*time.Millisecond + time.Duration(len(data))*2*time.Microsecond
			budgetA := 2048*uint64(len(data)) + 1<<20
			check := func(entry string, o callObs) {
				if o.status == "panic" {
					c.res.fail(Failure{Class: "C09:panic:" + entry, Desc: "a panic escaped from " + entry + " (" + what + ")", Input: in, Got: "panic", Want: "value or error"})
				}
				if o.elapsed > budgetT {
					o2 := callObs{}
					_ = o2
					c.res.fail(Failure{Class: "C09:time:" + entry, Desc: fmt.Sprintf("%s took %v on %d input bytes (%s)", entry, o.elapsed, len(data), what), Input: in, Got: o.elapsed.String(), Want: "<= " + budgetT.String()})
				}
				if o.alloc > budgetA {
					c.res.fail(Failure{Class: "C09:alloc:" + entry, Desc: fmt.Sprintf("%s allocated %d bytes on %d input bytes (%s)", entry, o.alloc, len(data), what), Input: in, Got: fmt.Sprint(o.alloc), Want: fmt.Sprintf("<= %d", budgetA)})
				}
			}
			var profiles [][]byte
			if s.fmt == "icc" {
				profiles = append(profiles, data)
			} else {
				for _, which := range []string{s.fmt, "auto"} {
					var md *meta.Data
					var err error
					o := measure(func() { md, _, err = loaders[which](bytes.NewReader(data)) })
					check(which+".Load", o)
					status := "err"
					if o.status != "panic" && err == nil && md == nil {
						c.res.fail(Failure{Class: "C09:neither-value-nor-error:" + which + ".Load", Desc: which + ".Load returned neither metadata nor an error (" + what + "): a caller that checks err and then uses the value crashes", Input: in, Got: "(nil, stream, nil)", Want: "a value or an error"})
					}
					if o.status == "panic" {
						status = "panic"
					} else if err == nil && md != nil {
						status = "ok " + mdString(md)
						if d, _ := md.ICCProfileData(); d != nil && which == s.fmt {
							profiles = append(profiles, d)
							var p *icc.Profile
							var perr error
							o2 := measure(func() { p, perr = md.ICCProfile() })
							check("Data.ICCProfile", o2)
							// the accessors are asked again on the same value: a second call returns, and returns the same
							var p2 *icc.Profile
							var perr2 error
							o3 := measure(func() { p2, perr2 = md.ICCProfile() })
							check("Data.ICCProfile (second call)", o3)
							d2, _ := md.ICCProfileData()
							if (perr == nil) != (perr2 == nil) || (p == nil) != (p2 == nil) || !bytes.Equal(d, d2) {
								c.res.fail(Failure{Class: "C09:accessor-not-idempotent", Desc: "asking the metadata value for its profile a second time gives a different answer (" + what + ")", Input: in,
									Got: fmt.Sprint(perr2 == nil, p2 != nil, len(d2)), Want: fmt.Sprint(perr == nil, p != nil, len(d))})
							}
						}
					}
					if c.runner != nil && which == s.fmt && len(data) < 200000 {
						wk := &worker{ctx: c, runner: c.runner}
						m := stripPulled(wk.askInflate(fmt.Sprintf("meta_load %s %s - 0 -1", which, hx(data))))
						if i := strings.Index(m, " replay="); i >= 0 {
							m = m[:i]
						}
						c.res.ModelCases++
						c.res.Streams["meta_load"]++
						if m != status {
							c.res.mismatch(Mismatch{Stream: "meta_load", Input: in, Impl: short(status, 200), Model: short(m, 200)})
						}
					}
				}
			}
			for _, p := range profiles {
				var prof *icc.Profile
				var err error
				o := measure(func() { prof, err = icc.NewProfileReader(bytes.NewReader(p)).ReadProfile() })
				check("ReadProfile", o)
				status := "err"
				if err == nil && prof != nil {
					var dsc string
					var derr error
					o2 := measure(func() { dsc, derr = prof.Description() })
					check("Profile.Description", o2)
					switch {
					case o2.status == "panic":
						status = "panic"
					case derr != nil:
						status = "desc-err"
					default:
						status = "ok " + hx([]byte(dsc))
					}
				}
				if o.status == "panic" {
					status = "panic"
				}
				if len(p) <= 1<<16 && len(plat386) < 6000 {
					plat386 = append(plat386, platCase{append([]byte{}, p...), status, in})
				}
				if c.runner != nil && len(p) < 200000 {
					m := c.runner.Ask("icc_desc " + hx(p))
					c.res.ModelCases++
					c.res.Streams["icc_desc"]++
					ms := m
					if m == "err" {
						// the model folds "profile unreadable" and "description unreadable"
						if status == "desc-err" {
							ms = "desc-err"
						}
					}
					if !descSame(status, ms) {
						c.res.mismatch(Mismatch{Stream: "icc_desc", Input: in, Impl: short(status, 200), Model: short(m, 200)})
					}
				}
			}
		}
		for _, s := range seeds {
			var fs []field
			switch s.fmt {
			case "png":
				fs = pngFields(s.data)
			case "jpeg":
				fs = jpegFields(s.data)
			case "webp":
				fs = webpFields(s.data)
			case "icc":
				fs = iccFields(s.data, 0)
			}
			// ICC fields of an embedded, uncompressed profile
			if s.fmt != "icc" {
				if i := bytes.Index(s.data, []byte("acsp")); i >= 36 && !strings.HasPrefix(s.name, "repo:") {
					fs = append(fs, iccFields(s.data[i-36:], i-36)...)
				}
			}
			if len(fs) > 60 && !c.thorough {
				rng.Shuffle(len(fs), func(i, j int) { fs[i], fs[j] = fs[j], fs[i] })
				fs = fs[:60]
			}
			c.res.sample(map[string]interface{}{"seed": s.name, "bytes": len(s.data), "fields": len(fs)})
			run("seed", "unchanged", s, s.data)
			for _, f := range fs {
				orig := getField(s.data, f)
				vals := append([]uint64{orig - 1, orig + 1, orig ^ 0x80000000}, boundaryValues...)
				if len(s.data) > 100000 && !c.thorough {
					vals = []uint64{0, 1, orig + 1, 0x7fffffff, 0x80000000, 0xfffffff0, 0xffffffff}
				}
				for _, v := range vals {
					run("field", fmt.Sprintf("%s@%d=%#x", f.what, f.off, v&(1<<(8*uint(f.width))-1)), s, setField(s.data, f, v))
				}
			}
			nm := 150
			if len(s.data) > 100000 {
				nm = 12
			}
			if c.thorough {
				nm *= 20
			}
			for i := 0; i < nm; i++ {
				m := append([]byte{}, s.data...)
				limit := len(m)
				if limit > 4000 {
					limit = 4000
				}
				switch rng.Intn(4) {
				case 0:
					for q := 0; q < 1+rng.Intn(4); q++ {
						m[rng.Intn(limit)] ^= byte(1 << uint(rng.Intn(8)))
					}
				case 1:
					p := rng.Intn(limit)
					copy(m[p:], randBytes(rng, 1+rng.Intn(8)))
				case 2:
					p, q := rng.Intn(limit), rng.Intn(limit)
					k := 1 + rng.Intn(16)
					if p+k < len(m) && q+k < len(m) {
						copy(m[p:p+k], s.data[q:q+k])
					}
				default:
					p := rng.Intn(limit)
					m = append(m[:p], m[p+rng.Intn(limit-p+1):]...)
				}
				run("mutation", "mutation", s, m)
			}
			nt := 120
			if len(s.data) > 100000 {
				nt = 10
			}
			for i := 0; i < nt; i++ {
				cut := rng.Intn(len(s.data) + 1)
				if i < 40 && i < len(s.data) {
					cut = i * len(s.data) / 40
				}
				run("truncation", fmt.Sprintf("truncated@%d", cut), s, s.data[:cut])
			}
		}
		// (c') the many-chunk JPEGs: unchanged, a sample of single-field boundary values, a few truncations
		for _, s := range lightSeeds {
			run("seed", "unchanged", s, s.data)
			fs := jpegFields(s.data)
			for i := 0; i < 40 && len(fs) > 0; i++ {
				f := fs[rng.Intn(len(fs))]
				v := boundaryValues[rng.Intn(len(boundaryValues))]
				run("field", fmt.Sprintf("%s@%d=%#x", f.what, f.off, v&(1<<(8*uint(f.width))-1)), s, setField(s.data, f, v))
			}
			for i := 0; i < 12; i++ {
				cut := rng.Intn(len(s.data) + 1)
				run("truncation", fmt.Sprintf("truncated@%d", cut), s, s.data[:cut])
			}
		}
		// (d) pairs of neighbouring fields driven together (count x size, offset x size, length x width, seq x total)
		pairVals := []uint64{0, 1, 12, 0x7fffffff, 0xffffffff}
		for _, s := range seeds {
			if len(s.data) > 100000 {
				continue
			}
			var fs []field
			switch s.fmt {
			case "png":
				fs = pngFields(s.data)
			case "jpeg":
				fs = jpegFields(s.data)
			case "webp":
				fs = webpFields(s.data)
			case "icc":
				fs = iccFields(s.data, 0)
			}
			if s.fmt != "icc" {
				if i := bytes.Index(s.data, []byte("acsp")); i >= 36 && !strings.HasPrefix(s.name, "repo:") {
					fs = append(fs, iccFields(s.data[i-36:], i-36)...)
				}
			}
			for i := 0; i+1 < len(fs); i++ {
				if !c.thorough && len(fs) > 40 && rng.Intn(len(fs)) >= 40 {
					continue
				}
				for _, v1 := range pairVals {
					for _, v2 := range pairVals {
						d := setField(setField(s.data, fs[i], v1), fs[i+1], v2)
						run("field-pair", fmt.Sprintf("%s@%d=%#x,%s@%d=%#x", fs[i].what, fs[i].off, v1&(1<<(8*uint(fs[i].width))-1), fs[i+1].what, fs[i+1].off, v2&(1<<(8*uint(fs[i+1].width))-1)), s, d)
					}
				}
			}
		}
		// (d') the container's outer length field together with each inner one (a consistency check between two
		// declared lengths proves nothing about the data present), and every declared ICC tag type paired with
		// very small tag sizes (a type handler indexing past the type signature and reserved word)
		bigs := []uint64{0x7fffffff, 0xffffffff, 0x20000000, 0x7ffffff7}
		for _, s := range seeds {
			if s.fmt != "webp" && s.fmt != "png" || len(s.data) > 100000 {
				continue
			}
			var fs []field
			if s.fmt == "webp" {
				fs = webpFields(s.data)
			} else {
				fs = pngFields(s.data)
			}
			for i := 1; i < len(fs) && len(fs) > 1; i++ {
				for _, v1 := range bigs[:2] {
					for _, v2 := range bigs {
						d := setField(setField(s.data, fs[0], v1), fs[i], v2)
						run("outer-inner-pair", fmt.Sprintf("%s@%d=%#x,%s@%d=%#x", fs[0].what, fs[0].off, v1, fs[i].what, fs[i].off, v2), s, d)
					}
				}
			}
		}
		for _, typ := range []string{"text", "desc", "mluc", "sig ", "XYZ ", "curv", "para", "sf32", "ui16", "data", "dtim", "\x00\x00\x00\x00"} {
			for size := 0; size <= 20; size++ {
				hdr := randBytes(rng, 128)
				copy(hdr[36:], "acsp")
				body := append([]byte(typ), make([]byte, 16)...)[:size]
				p := layoutProfile(rng, hdr, []genTag{{0x64657363, body}}, false)
				run("tag-type-size", fmt.Sprintf("desc tag of type %q and size %d", typ, size), seed{"gen:icc-desc-type-size", "icc", p}, p)
			}
		}
		// (e) a format's first bytes followed by a very long run of one byte value (fill bytes, zero padding):
		// nesting or recursion that grows with the input shows up only here
		runLens := []int{70000, 3 << 20}
		if c.thorough {
			runLens = append(runLens, 40<<20)
		} else {
			runLens = append(runLens, 24<<20)
		}
		heads := []seed{{"head:jpeg-soi", "jpeg", []byte{0xff, 0xd8}}, {"head:png-sig", "png", append([]byte{}, pngSigBytes...)},
			{"head:riff-webp-vp8x", "webp", []byte("RIFF\xff\xff\xff\x7fWEBPVP8X\x0a\x00\x00\x00\x20\x00\x00\x00\x01\x00\x00\x01\x00\x00")}}
		for _, h := range heads {
			for _, n := range runLens {
				for _, bv := range []byte{0xff, 0x00} {
					d := append(append([]byte{}, h.data...), bytes.Repeat([]byte{bv}, n)...)
					run("run-of-bytes", fmt.Sprintf("%d x %#02x after the %s start", n, bv, h.fmt), h, d)
				}
			}
		}
		// (f) hundreds of tag-table entries with distinct signatures all pointing at one large region (legal in
		// ICC): anything that copies per tag allocates tags x region
		for _, tr := range [][2]int{{300, 20000}, {3000, 300000}} {
			T, R := tr[0], tr[1]
			p := randBytes(rng, 128)
			copy(p[36:], "acsp")
			p = append(p, be32(uint32(T))...)
			for k := 0; k < T; k++ {
				p = append(p, byte('A'+k%26), byte('a'+(k/26)%26), byte('0'+(k/676)%10), byte('0'+k%10))
				p = append(p, be32(uint32(132+12*T))...)
				p = append(p, be32(uint32(R))...)
			}
			p = append(p, randBytes(rng, R)...)
			binary.BigEndian.PutUint32(p[0:], uint32(len(p)))
			run("shared-tags", fmt.Sprintf("%d tags sharing one %d-byte region", T, R), seed{"gen:icc-shared-tags", "icc", p}, p)
		}
		// (g) a multi-localised description whose records all point at one string region (records may share
		// or overlap their strings): anything that decodes per record costs records x region
		for _, tr := range [][2]int{{200, 20000}, {2000, 200000}} {
			N, R := tr[0], tr[1]
			tag := []byte("mluc\x00\x00\x00\x00")
			tag = append(tag, be32(uint32(N))...)
			tag = append(tag, be32(12)...)
			for k := 0; k < N; k++ {
				tag = append(tag, byte('a'+k%26), byte('a'+(k/26)%26), byte('A'+(k/676)%26), byte('A'+k%7))
				tag = append(tag, be32(uint32(R))...)
				tag = append(tag, be32(uint32(16+12*N))...)
			}
			region := make([]byte, R)
			for i := 0; i+1 < R; i += 2 {
				region[i], region[i+1] = 0, byte(0x41+rng.Intn(26))
			}
			tag = append(tag, region...)
			hdr := randBytes(rng, 128)
			copy(hdr[36:], "acsp")
			p := layoutProfile(rng, hdr, []genTag{{0x64657363, tag}}, false)
			run("shared-strings", fmt.Sprintf("mluc with %d records sharing one %d-byte string", N, R), seed{"gen:icc-mluc-shared-strings", "icc", p}, p)
		}
		os.Remove(current)
		checkPlatform386(c)
		runtime.GC()
	}
}

// ---- the same hostile profiles on a 32-bit platform ----
// int is 32 bits wide under GOARCH=386: counts and offsets taken from the input (all of them 32-bit
// fields) no longer fit a signed int, and arithmetic that is harmless on amd64 wraps.  The profiles met
// in this run are handed to the GOARCH=386 build of this program (subcommand hostile386) and its
// outcome per profile - description, error, or an escaped panic - must be the one obtained here.
type platCase struct {
	data   []byte
	status string
	in     map[string]interface{}
}

var plat386 []platCase

func iccStatus(p []byte) (status string) {
	defer func() {
		if r := recover(); r != nil {
			status = "panic"
		}
	}()
	prof, err := icc.NewProfileReader(bytes.NewReader(p)).ReadProfile()
	if err != nil || prof == nil {
		return "err"
	}
	dsc, derr := prof.Description()
	if derr != nil {
		return "desc-err"
	}
	return "ok " + hx([]byte(dsc))
}

func hostile386Main() {
	in, _ := io.ReadAll(os.Stdin)
	w := bufio.NewWriter(os.Stdout)
	defer w.Flush()
	for len(in) >= 4 {
		n := int(binary.LittleEndian.Uint32(in))
		if n < 0 || len(in) < 4+n {
			break
		}
		fmt.Fprintln(w, iccStatus(in[4:4+n]))
		w.Flush()
		in = in[4+n:]
	}
}

func checkPlatform386(c *ctx) {
	if os.Getenv("VERIF_PLATFORM") != "" {
		return
	}
	bin386 := os.Getenv("VERIF_ROOT") + "/build/bin/vharness386"
	if _, err := os.Stat(bin386); err != nil {
		c.res.Notes = append(c.res.Notes, "no GOARCH=386 build of the harness: 32-bit platform run of the hostile profiles skipped")
		return
	}
	var buf bytes.Buffer
	for _, pc := range plat386 {
		binary.Write(&buf, binary.LittleEndian, uint32(len(pc.data)))
		buf.Write(pc.data)
	}
	cmd := exec.Command(bin386, "hostile386")
	cmd.Stdin = &buf
	var out bytes.Buffer
	cmd.Stdout = &out
	done := make(chan error, 1)
	cmd.Start()
	go func() { done <- cmd.Wait() }()
	var err error
	select {
	case err = <-done:
	case <-time.After(240 * time.Second):
		cmd.Process.Kill()
		err = fmt.Errorf("no answer within 240 s")
	}
	lines := strings.Split(strings.TrimRight(out.String(), "\n"), "\n")
	if out.Len() == 0 {
		lines = nil
	}
	for i, pc := range plat386 {
		c.res.count("platform-386", string(pc.data), true)
		if i >= len(lines) {
			c.res.fail(Failure{Class: "C09:platform-386:process", Desc: fmt.Sprintf("the GOARCH=386 build stopped (%v) on hostile profile #%d: crash, hang or exhausted memory on a 32-bit platform", err, i), Input: pc.in, Got: fmt.Sprint(err), Want: pc.status})
			return
		}
		// the kind of outcome is compared (description / description error / error / escaped panic), not the text: a
		// multi-localised tag with several records of equal rank may legitimately yield any of them
		if strings.SplitN(lines[i], " ", 2)[0] != strings.SplitN(pc.status, " ", 2)[0] {
			c.res.fail(Failure{Class: "C09:platform-386", Desc: "ReadProfile/Description on the GOARCH=386 build differs from this platform's outcome (panic = a panic escaped there)", Input: pc.in, Got: short(lines[i], 120), Want: short(pc.status, 120)})
			return
		}
	}
}
