package main

// C14: alpha passes through exactly; linearised pixels stay validly premultiplied.

import (
	"fmt"
	"github.com/mandykoh/prism/adobergb"
	"github.com/mandykoh/prism/displayp3"
	"github.com/mandykoh/prism/prophotorgb"
	"github.com/mandykoh/prism/srgb"
	"image"
	"image/color"
	"image/draw"
	"math"
	"os"
	"runtime"
	"strings"
)

type colourFns struct {
	name      string
	linearise func(color.Color) color.RGBA64
	encode    func(color.Color) color.RGBA64
}

func init() {
	commands["C14"] = func(c *ctx) {
		c.res.Rule = "all 65,536 16-bit alphas x 64 channel values (+ boundaries channel = alpha, alpha-1, 0, 1) and all 8-bit (channel <= alpha) pairs through LineariseColor / EncodeColor / the colour constructors and converters of the four spaces; float32 alphas incl. NaN, infinities and out-of-range on the encode side; thorough: every (channel <= alpha) 16-bit pair for one curve per run (seed-selected); the 16-bit decode tables are emitted as Coq terms for the premultiplication margin certificates; non-trivial = distinct (space, channel, alpha) with 0 < alpha"
		gdir := c.out + "/Gen"
		os.MkdirAll(gdir, 0o755)
		// decode tables again (same dump as C01) with the margin certificates
		hdr := "(* generated *)\nFrom Coq Require Import ZArith List Lia. Import ListNotations. Open Scope Z_scope.\nFrom PrismV Require Import Num.Dyadic Num.Curves Num.TableCheck.\n"
		var stage1, stage2, exports []string
		for _, s := range spaces[:3] {
			t16 := make([]uint32, 65536)
			for v := range t16 {
				t16[v] = math.Float32bits(s.from16(uint16(v)))
			}
			base := "P_" + s.name
			mods := writeChunks(gdir, base, t16, func(start int) string { return fmt.Sprintf("check_premul_chunk %d chunk", start) })
			for _, m := range mods {
				stage1 = append(stage1, m+".v")
			}
			var b strings.Builder
			b.WriteString(hdr)
			fmt.Fprintf(&b, "From PrismGen Require %s.\n", strings.Join(mods, " "))
			var parts []string
			for i, m := range mods {
				parts = append(parts, fmt.Sprintf("(%d, %s.chunk)", i*chunkLen, m))
			}
			t := "pdec16_" + s.name
			fmt.Fprintf(&b, "Definition %s_chunks : list (Z * list Z) := [%s].\n", t, strings.Join(parts, "; "))
			fmt.Fprintf(&b, "Definition %s : list Z := Eval vm_compute in concat (map snd %s_chunks).\n", t, t)
			fmt.Fprintf(&b, "Lemma %s_contig : contiguous 0 %s_chunks = true. Proof. vm_compute. reflexivity. Qed.\n", t, t)
			fmt.Fprintf(&b, "Lemma %s_certs : Forall (fun sc => check_premul_chunk (fst sc) (snd sc) = true) %s_chunks.\nProof.\n  unfold %s_chunks.\n", t, t, t)
			for _, m := range mods {
				fmt.Fprintf(&b, "  apply Forall_cons; [exact %s.ok|].\n", m)
			}
			b.WriteString("  apply Forall_nil.\nQed.\n")
			fmt.Fprintf(&b, "Lemma %s_ok : AllIdx premul_margin 0 %s.\nProof. exact (premul_table_ok %s_chunks %s_contig %s_certs). Qed.\n", t, t, t, t, t)
			fmt.Fprintf(&b, "Lemma %s_len : Z.of_nat (length %s) = 65536. Proof. vm_compute. reflexivity. Qed.\n", t, t)
			os.WriteFile(gdir+"/T_"+t+".v", []byte(b.String()), 0o644)
			stage2 = append(stage2, "T_"+t+".v")
			exports = append(exports, "T_"+t)
		}
		var ex strings.Builder
		for _, x := range exports {
			fmt.Fprintf(&ex, "From PrismGen Require Export %s.\n", x)
		}
		os.WriteFile(gdir+"/PremulTables.v", []byte(ex.String()), 0o644)
		c.res.GenStages = [][]string{stage1, stage2, {"PremulTables.v"}}

		rng := c.rng
		chans := func(a int) []int {
			out := []int{0, 1, a, a - 1, a / 2, a / 3}
			for i := 0; i < 58; i++ {
				out = append(out, rng.Intn(a+1))
			}
			return out
		}
		for si, s := range spaces {
			// 16-bit: all alphas
			for a := 0; a < 65536; a++ {
				cs := []int{0}
				if a > 0 {
					cs = chans(a)
				}
				if a%8 != si%8 && !c.thorough && a > 300 && a < 65200 {
					cs = cs[:6]
				}
				for _, ch := range cs {
					if ch < 0 || ch > a {
						continue
					}
					in := color.RGBA64{uint16(ch), uint16(ch / 2), uint16(a), uint16(a)}
					lin := s.linearise(in)
					c.res.count("linearise-"+s.name, fmt.Sprint(s.name, ch, a), a > 0)
					inp := map[string]interface{}{"space": s.name, "pixel": fmt.Sprint(in), "fn": "LineariseColor"}
					if lin.A != uint16(a) {
						c.res.fail(Failure{Class: "C14:" + s.name + ":linearise-alpha", Desc: "LineariseColor changed alpha", Input: inp, Got: fmt.Sprint(lin), Want: fmt.Sprintf("alpha %d", a)})
					}
					if lin.R > lin.A || lin.G > lin.A || lin.B > lin.A {
						c.res.fail(Failure{Class: "C14:" + s.name + ":premultiplied", Desc: "linearising a valid premultiplied pixel gave channel > alpha", Input: inp, Got: fmt.Sprint(lin), Want: "channels <= alpha"})
					}
					if c.runner != nil && s.from16 != nil && a > 0 && (ch%41 == 3 || (a%5 == 0 && (ch == a || ch == a-1)) || c.thorough) && ch > 0 {
						// the Flocq model of the channel path (Num/Premul.v) on the table value of this channel code
						tb := math.Float32bits(s.from16(uint16(ch)))
						m := c.runner.Ask(fmt.Sprintf("linchan %d %d", tb, a))
						if rng.Intn(2000) == 0 {
							xcheck("linchan", 40, fmt.Sprintf("lin_channel_bits %d %d = %s", tb, a, m))
						}
						c.res.ModelCases++
						c.res.Streams["linchan"]++
						if m != fmt.Sprint(lin.R) {
							c.res.mismatch(Mismatch{Stream: "linchan", Input: inp, Impl: fmt.Sprint(lin.R), Model: m})
						}
					}
					if a == 0 && (lin != color.RGBA64{}) {
						c.res.fail(Failure{Class: "C14:" + s.name + ":transparent", Desc: "transparent pixel must decode to zero colour and alpha 0", Input: inp, Got: fmt.Sprint(lin), Want: "{0 0 0 0}"})
					}
				}
				// alpha through the constructor and back through the 16-bit converter
				_, _, _, alpha := s.encoded(color.NRGBA64{1000, 2000, 3000, uint16(a)})
				if a > 0 && math.Float32bits(alpha) != math.Float32bits(float32(a)/65535) {
					c.res.fail(Failure{Class: "C14:" + s.name + ":decode-alpha", Desc: "ColorFromEncodedColor alpha is not exactly A/65535", Input: map[string]interface{}{"space": s.name, "alpha": a}, Got: fmt.Sprint(alpha), Want: fmt.Sprint(float32(a) / 65535)})
				}
				if c.runner != nil && si == 0 && (a%16 == 3 || c.thorough) && a > 0 {
					m := c.runner.Ask(fmt.Sprintf("alpha16 %d", a))
					if a%1600 == 3 {
						xcheck("alpha16", 40, fmt.Sprintf("alpha16_bits %d = %s", a, m))
					}
					c.res.ModelCases++
					c.res.Streams["alpha16"]++
					if m != fmt.Sprint(math.Float32bits(alpha)) {
						c.res.mismatch(Mismatch{Stream: "alpha16", Input: a, Impl: fmt.Sprint(math.Float32bits(alpha)), Model: m})
					}
				}
				_, _, r64 := colourEncode(s.name, 0.25, 0.5, 0.75, alpha)
				if a > 0 && r64.A != uint16(a) {
					c.res.fail(Failure{Class: "C14:" + s.name + ":encode-alpha", Desc: "alpha does not survive decode then ToRGBA64", Input: map[string]interface{}{"space": s.name, "alpha": a}, Got: fmt.Sprint(r64.A), Want: fmt.Sprint(a)})
				}
			}
			// translucent colours of every concrete colour type that carries an alpha: decoded alpha is exactly
			// A/65535 (A as reported by RGBA()) and linearising keeps it
			for a := 1; a < 256; a++ {
				for _, in := range []color.Color{color.NYCbCrA{YCbCr: color.YCbCr{Y: uint8(rng.Intn(256)), Cb: uint8(rng.Intn(256)), Cr: uint8(rng.Intn(256))}, A: uint8(a)},
					color.Alpha{A: uint8(a)}, color.Alpha16{A: uint16(a)*257 - uint16(a%3)}, color.NRGBA{R: 200, G: 100, B: 50, A: uint8(a)}, color.RGBA{R: uint8(a / 2), G: uint8(a / 3), B: uint8(a), A: uint8(a)},
					translucentCustom{uint16(a) * 100, uint16(a) * 257}} {
					_, _, _, a16 := in.RGBA()
					_, _, _, al := s.encoded(in)
					lin := s.linearise(in)
					c.res.count("translucent-"+s.name, fmt.Sprintf("%s %T %d", s.name, in, a), true)
					if math.Float32bits(al) != math.Float32bits(float32(a16)/65535) || lin.A != uint16(a16) {
						c.res.fail(Failure{Class: "C14:" + s.name + ":decode-alpha", Desc: fmt.Sprintf("alpha of a translucent %T is not decoded as exactly A/65535 or not kept by LineariseColor", in),
							Input: map[string]interface{}{"space": s.name, "colour": fmt.Sprintf("%T%v", in, in)}, Got: fmt.Sprint(al, lin.A), Want: fmt.Sprint(float32(a16)/65535, a16)})
					}
					if lin.R > lin.A || lin.G > lin.A || lin.B > lin.A {
						c.res.fail(Failure{Class: "C14:" + s.name + ":premultiplied", Desc: fmt.Sprintf("linearising a valid premultiplied %T gave channel > alpha", in), Input: map[string]interface{}{"space": s.name, "colour": fmt.Sprintf("%T%v", in, in)}, Got: fmt.Sprint(lin), Want: "channels <= alpha"})
					}
					// the encode side with the same values taken as linear colours: whatever the dynamic type, the
					// alpha written is the alpha RGBA() reports
					if enc := encodeColorFns[s.name](in); enc.A != uint16(a16) {
						c.res.fail(Failure{Class: "C14:" + s.name + ":encode-alpha-type", Desc: fmt.Sprintf("EncodeColor on a translucent %T does not keep its alpha", in),
							Input: map[string]interface{}{"space": s.name, "colour": fmt.Sprintf("%T%v", in, in)}, Got: fmt.Sprint(enc.A), Want: fmt.Sprint(a16)})
					}
				}
			}
			// fully transparent pixels of every concrete colour type, whatever their colour bytes say
			for k := 0; k < 400; k++ {
				x, y, z := uint16(rng.Intn(65536)), uint16(rng.Intn(65536)), uint16(rng.Intn(65536))
				if k < 8 {
					x, y, z = []uint16{0, 1, 255, 256, 65535, 32768, 257, 65534}[k], uint16(k), uint16(65535-k)
				}
				for _, in := range []color.Color{color.RGBA64{R: x, G: y, B: z, A: 0}, color.NRGBA64{R: x, G: y, B: z, A: 0},
					color.RGBA{R: uint8(x), G: uint8(y), B: uint8(z), A: 0}, color.NRGBA{R: uint8(x), G: uint8(y), B: uint8(z), A: 0}, color.Alpha{A: 0}, color.Alpha16{A: 0}} {
					r, g, b, al := s.encoded(in)
					lin := s.linearise(in)
					c.res.count("transparent-"+s.name, fmt.Sprintf("%s %T %v", s.name, in, in), true)
					if r != 0 || g != 0 || b != 0 || al != 0 || (lin != color.RGBA64{}) {
						c.res.fail(Failure{Class: "C14:" + s.name + ":transparent", Desc: "a fully transparent pixel must decode to the zero colour with alpha 0",
							Input: map[string]interface{}{"space": s.name, "pixel": fmt.Sprintf("%T%v", in, in)}, Got: fmt.Sprint(r, g, b, al, lin), Want: "0 0 0 0 {0 0 0 0}"})
					}
				}
			}
			if s.rgba != nil {
				for k := 0; k < 64; k++ {
					in := color.RGBA{R: uint8(rng.Intn(256)), G: uint8(rng.Intn(256)), B: uint8(rng.Intn(256)), A: 0}
					r, g, b, al := s.rgba(in)
					if r != 0 || g != 0 || b != 0 || al != 0 {
						c.res.fail(Failure{Class: "C14:" + s.name + ":transparent", Desc: "ColorFromRGBA of a fully transparent pixel must be the zero colour with alpha 0",
							Input: map[string]interface{}{"space": s.name, "pixel": fmt.Sprint(in)}, Got: fmt.Sprint(r, g, b, al), Want: "0 0 0 0"})
					}
				}
			}
			// 8-bit pairs
			for a := 0; a < 256; a++ {
				for ch := 0; ch <= a; ch++ {
					in := color.RGBA{uint8(ch), uint8(ch), uint8(a), uint8(a)}
					lin := s.linearise(in)
					c.res.count("linearise8-"+s.name, fmt.Sprint(s.name, "8", ch, a), a > 0)
					inp := map[string]interface{}{"space": s.name, "pixel": fmt.Sprint(in), "fn": "LineariseColor"}
					if lin.A != uint16(a)*257 {
						c.res.fail(Failure{Class: "C14:" + s.name + ":linearise-alpha", Desc: "LineariseColor changed alpha (8-bit source)", Input: inp, Got: fmt.Sprint(lin), Want: fmt.Sprintf("alpha %d", a*257)})
					}
					if lin.R > lin.A || lin.G > lin.A || lin.B > lin.A {
						c.res.fail(Failure{Class: "C14:" + s.name + ":premultiplied", Desc: "linearising a valid premultiplied pixel gave channel > alpha", Input: inp, Got: fmt.Sprint(lin), Want: "channels <= alpha"})
					}
					r, _, _, al := s.rgba(in)
					n8, r8, _ := colourEncode(s.name, r, r, r, al)
					if a > 0 && (n8.A != uint8(a) || r8.A != uint8(a)) {
						c.res.fail(Failure{Class: "C14:" + s.name + ":encode-alpha8", Desc: "8-bit alpha does not survive ColorFromRGBA then ToNRGBA/ToRGBA", Input: inp, Got: fmt.Sprint(n8.A, r8.A), Want: fmt.Sprint(a)})
					}
				}
				_, _, _, al := s.nrgba(color.NRGBA{9, 9, 9, uint8(a)})
				if math.Float32bits(al) != math.Float32bits(float32(a)/255) {
					c.res.fail(Failure{Class: "C14:" + s.name + ":decode-alpha8", Desc: "ColorFromNRGBA alpha is not exactly A/255", Input: map[string]interface{}{"space": s.name, "alpha": a}, Got: fmt.Sprint(al), Want: fmt.Sprint(float32(a) / 255)})
				}
				if c.runner != nil && si == 0 {
					m := c.runner.Ask(fmt.Sprintf("alpha8 %d", a))
					c.res.ModelCases++
					c.res.Streams["alpha8"]++
					if m != fmt.Sprint(math.Float32bits(al)) {
						c.res.mismatch(Mismatch{Stream: "alpha8", Input: a, Impl: fmt.Sprint(math.Float32bits(al)), Model: m})
					}
				}
			}
			// transparent pixels of every kind decode to zero
			for _, px := range []color.Color{color.NRGBA64{500, 600, 700, 0}, color.RGBA64{}, color.NRGBA{1, 2, 3, 0}, color.RGBA{}} {
				r, g, b, al := s.encoded(px)
				if r != 0 || g != 0 || b != 0 || al != 0 {
					c.res.fail(Failure{Class: "C14:" + s.name + ":transparent", Desc: "transparent pixel must decode to the zero colour with alpha 0", Input: fmt.Sprint(px), Got: fmt.Sprint(r, g, b, al), Want: "0 0 0 0"})
				}
			}
			// encode side: float32 alpha specials
			for _, al := range c02Inputs(c, 255)[:600] {
				n8, r8, r64 := colourEncode(s.name, 0.3, 0.3, 0.3, al)
				w8, w16 := quantRef(al, 255), quantRef(al, 65535)
				c.res.count("encode-alpha-"+s.name, fmt.Sprint(s.name, math.Float32bits(al)), true)
				if uint32(n8.A) != w8 || uint32(r8.A) != w8 || uint32(r64.A) != w16 {
					c.res.fail(Failure{Class: "C14:" + s.name + ":encode-alpha-float", Desc: "encoded alpha is not round(alpha*max) clipped to [0,1]",
						Input: map[string]interface{}{"space": s.name, "alpha_bits": fmt.Sprintf("%#x", math.Float32bits(al)), "alpha": fmt.Sprint(al)}, Got: fmt.Sprint(n8.A, r8.A, r64.A), Want: fmt.Sprint(w8, w8, w16)})
				}
			}
		}
		if c.thorough {
			s := spaces[int(c.seed)%3]
			for a := 1; a < 65536; a++ {
				for ch := 0; ch <= a; ch++ {
					lin := s.linearise(color.RGBA64{uint16(ch), 0, 0, uint16(a)})
					if lin.R > lin.A || lin.A != uint16(a) {
						c.res.fail(Failure{Class: "C14:" + s.name + ":premultiplied", Desc: "exhaustive sweep", Input: fmt.Sprint(ch, a), Got: fmt.Sprint(lin), Want: "channel <= alpha"})
					}
				}
				c.res.Evaluations += a + 1
			}
		}
		// the image API: every 8-bit and a sweep of 16-bit alphas through LineariseImage / EncodeImage of every
		// space into every destination kind; the alpha bytes must come out unchanged and channels <= alpha
		for _, tc := range transformCases() {
			if !strings.Contains(tc.name, "Image") {
				continue
			}
			src8 := image.NewRGBA(image.Rect(0, 0, 256, 1))
			for a := 0; a < 256; a++ {
				src8.SetRGBA(a, 0, color.RGBA{uint8(a / 2), uint8(a), uint8(a / 3), uint8(a)})
			}
			src16 := image.NewRGBA64(image.Rect(0, 0, 4096, 1))
			for i := 0; i < 4096; i++ {
				a := uint16(i*16 + (i*7)%16)
				src16.SetRGBA64(i, 0, color.RGBA64{a / 2, a, a / 5, a})
			}
			// neighbours that differ in alpha only: translucent then opaque with the same channels, and back
			srcS16 := image.NewRGBA64(image.Rect(0, 0, 4096, 1))
			srcS8 := image.NewRGBA(image.Rect(0, 0, 512, 1))
			for i := 0; i < 4096; i += 4 {
				a := uint16(i*16 + 5)
				ch := color.RGBA64{a / 3, a / 2, a, a}
				op := ch
				op.A = 0xffff
				srcS16.SetRGBA64(i, 0, ch)
				srcS16.SetRGBA64(i+1, 0, op)
				srcS16.SetRGBA64(i+2, 0, op)
				srcS16.SetRGBA64(i+3, 0, color.RGBA64{ch.R, ch.G, ch.B, a + 1})
			}
			for i := 0; i < 512; i += 4 {
				a := uint8(i / 2)
				ch := color.RGBA{a / 3, a, a / 2, a}
				op := ch
				op.A = 0xff
				srcS8.SetRGBA(i, 0, ch)
				srcS8.SetRGBA(i+1, 0, op)
				srcS8.SetRGBA(i+2, 0, op)
				srcS8.SetRGBA(i+3, 0, ch)
			}
			for _, dk := range []string{"RGBA", "NRGBA", "RGBA64", "NRGBA64"} {
				for _, src := range []image.Image{src8, src16, srcS8, srcS16} {
					var dst draw.Image
					switch dk {
					case "RGBA":
						dst = image.NewRGBA(src.Bounds())
					case "NRGBA":
						dst = image.NewNRGBA(src.Bounds())
					case "RGBA64":
						dst = image.NewRGBA64(src.Bounds())
					default:
						dst = image.NewNRGBA64(src.Bounds())
					}
					// a reused destination still holding other data
					switch d := dst.(type) {
					case *image.RGBA:
						for i := range d.Pix {
							d.Pix[i] = 0xaa
						}
					case *image.NRGBA:
						for i := range d.Pix {
							d.Pix[i] = 0xaa
						}
					case *image.RGBA64:
						for i := range d.Pix {
							d.Pix[i] = 0xaa
						}
					case *image.NRGBA64:
						for i := range d.Pix {
							d.Pix[i] = 0xaa
						}
					}
					tc.run(dst, src, 3)
					b := src.Bounds()
					for x := b.Min.X; x < b.Max.X; x++ {
						_, _, _, wa := src.At(x, 0).RGBA()
						r, g, bl, ga := dst.At(x, 0).RGBA()
						if dk == "RGBA" || dk == "NRGBA" {
							wa = (wa >> 8) * 0x101
						}
						c.res.count("image-alpha", fmt.Sprint(tc.name, dk, x, b.Dx()), wa > 0)
						// (only linearising is claimed to keep channels <= alpha: encoding applies the transfer function
						// to the premultiplied value, which may exceed alpha - not a C14 clause)
						if ga != wa || (strings.Contains(tc.name, "Linearise") && strings.HasPrefix(dk, "RGBA") && (r > ga || g > ga || bl > ga)) {
							c.res.fail(Failure{Class: "C14:image-alpha:" + dk, Desc: fmt.Sprintf("%s into a %s destination changed the alpha of a pixel (or left a channel above alpha)", tc.name, dk),
								Input: map[string]interface{}{"transform": tc.name, "dst": dk, "src_pixel": fmt.Sprint(src.At(x, 0))}, Got: fmt.Sprint(dst.At(x, 0)), Want: fmt.Sprintf("alpha %#x", wa)})
							break
						}
					}
				}
			}
		}
		// other geometries: several rows, a negative origin, a destination wider and taller than the source (its
		// stride differs) or a window of a larger canvas; alpha of every source pixel arrives at its place
		for _, tc := range transformCases() {
			if !strings.Contains(tc.name, "Image") {
				continue
			}
			sr := image.Rect(-3, -5, 5, 4)
			src := image.NewRGBA64(sr)
			for y := sr.Min.Y; y < sr.Max.Y; y++ {
				for x := sr.Min.X; x < sr.Max.X; x++ {
					a := uint16(((x+3)*9+(y+5))*811 + 7)
					src.SetRGBA64(x, y, color.RGBA64{a / 3, a / 2, a, a})
				}
			}
			// the same pixels as a genuinely 16-bit source of another type (what a 16-bit PNG decodes to)
			srcN := image.NewNRGBA64(sr)
			for y := sr.Min.Y; y < sr.Max.Y; y++ {
				for x := sr.Min.X; x < sr.Max.X; x++ {
					a := uint16(((x+3)*9+(y+5))*811 + 7)
					srcN.SetNRGBA64(x, y, color.NRGBA64{a ^ 0x5555, a / 2, a, a})
				}
			}
			for _, par := range []int{2, 5} {
				dn := image.NewRGBA64(sr)
				tc.run(dn, srcN, par)
				for y := sr.Min.Y; y < sr.Max.Y; y++ {
					for x := sr.Min.X; x < sr.Max.X; x++ {
						_, _, _, wa := srcN.At(x, y).RGBA()
						_, _, _, ga := dn.At(x, y).RGBA()
						c.res.count("image-alpha-geometry", fmt.Sprint(tc.name, "nrgba64", par, x, y), true)
						if ga != wa {
							c.res.fail(Failure{Class: "C14:image-alpha:NRGBA64-source", Desc: fmt.Sprintf("%s from an *image.NRGBA64 source into an *image.RGBA64 destination (parallelism %d) changed the alpha of pixel (%d,%d)", tc.name, par, x, y),
								Input: map[string]interface{}{"transform": tc.name, "src_pixel": fmt.Sprint(srcN.At(x, y)), "parallelism": par}, Got: fmt.Sprintf("%#x", ga), Want: fmt.Sprintf("%#x", wa)})
							y = sr.Max.Y
							break
						}
					}
				}
			}
			canvas := image.NewRGBA64(image.Rect(-8, -9, 12, 11))
			for _, dst := range []*image.RGBA64{image.NewRGBA64(image.Rect(-3, -5, 9, 7)), canvas.SubImage(image.Rect(-3, -5, 6, 5)).(*image.RGBA64)} {
				// (parallelism 8 with the process limited to 2 processors: more workers than processors)
				for _, par := range []int{2, 3, 4, -8} {
					restore := func() {}
					if par < 0 {
						par = -par
						old := runtime.GOMAXPROCS(2)
						restore = func() { runtime.GOMAXPROCS(old) }
					}
					for i := range dst.Pix {
						dst.Pix[i] = 0x55
					}
					tc.run(dst, src, par)
					restore()
					bad := false
					for y := sr.Min.Y; y < sr.Max.Y && !bad; y++ {
						for x := sr.Min.X; x < sr.Max.X; x++ {
							_, _, _, wa := src.At(x, y).RGBA()
							_, _, _, ga := dst.At(x, y).RGBA()
							c.res.count("image-alpha-geometry", fmt.Sprint(tc.name, dst.Stride, par, x, y), true)
							if ga != wa {
								c.res.fail(Failure{Class: "C14:image-alpha:geometry", Desc: fmt.Sprintf("%s (source %v, destination %v with stride %d, parallelism %d): the alpha of source pixel (%d,%d) is not the alpha found at that place in the destination", tc.name, sr, dst.Bounds(), dst.Stride, par, x, y),
									Input: map[string]interface{}{"transform": tc.name, "src_bounds": sr.String(), "dst_bounds": dst.Bounds().String(), "dst_stride": dst.Stride, "parallelism": par, "pixel": fmt.Sprint(x, y)}, Got: fmt.Sprintf("%#x", ga), Want: fmt.Sprintf("%#x", wa)})
								bad = true
								break
							}
						}
					}
				}
			}
		}
		if st := writeXCheck(gdir, "From Coq Require Import ZArith.\nFrom PrismV Require Import Num.Quant Num.Reps Num.Premul."); st != nil {
			c.res.GenStages = append(c.res.GenStages, st)
		}
		c.res.sample(map[string]interface{}{"fn": "srgb.LineariseColor", "pixel": "RGBA64{30000 15000 40000 40000}", "result": fmt.Sprint(spaces[0].linearise(color.RGBA64{30000, 15000, 40000, 40000}))})
	}
}

// round(alpha*max) clipped, in float64 (exact for the products involved)
func quantRef(v float32, m int) uint32 {
	if !(v > 0) {
		return 0
	}
	if v >= 1 {
		return uint32(m)
	}
	return uint32(float32(v*float32(m) + 0.5))
}

var encodeColorFns = map[string]func(color.Color) color.RGBA64{"srgb": srgb.EncodeColor, "adobergb": adobergb.EncodeColor, "prophotorgb": prophotorgb.EncodeColor, "displayp3": displayp3.EncodeColor}

// a colour type the library cannot know, translucent and validly premultiplied
type translucentCustom struct{ v, a uint16 }

func (c translucentCustom) RGBA() (uint32, uint32, uint32, uint32) {
	return uint32(c.v), uint32(c.v / 2), 0, uint32(c.a)
}
