package main

// Source kinds other than the instrumented schedule reader: the concrete reader types callers hand to
// Load (seekable and not, at offset 0 and in the middle of a larger object, files, buffers).  For each
// the loaders must behave as on the plain bytes: same outcome, and the returned stream replays exactly
// the bytes the source had left.

import (
	"bufio"
	"bytes"
	"io"
	"math/rand"
	"os"
	"path/filepath"
	"strings"

	"github.com/mandykoh/prism/meta"
)

type srcKind struct {
	name string
	open func(prefix, data []byte) (io.Reader, func())
}

func sourceKinds(dir string) []srcKind {
	nop := func() {}
	cat := func(a, b []byte) []byte { return append(append([]byte{}, a...), b...) }
	file := func(prefix, data []byte, seek bool) (io.Reader, func()) {
		p := filepath.Join(dir, "srckind.bin")
		if err := os.WriteFile(p, cat(prefix, data), 0o644); err != nil {
			panic(err)
		}
		f, err := os.Open(p)
		if err != nil {
			panic(err)
		}
		if seek {
			f.Seek(int64(len(prefix)), io.SeekStart)
		} else {
			io.ReadFull(f, make([]byte, len(prefix)))
		}
		return f, func() { f.Close(); os.Remove(p) }
	}
	return []srcKind{
		{"bytes.Reader@0", func(_, d []byte) (io.Reader, func()) { return bytes.NewReader(d), nop }},
		{"bytes.Reader@offset(read)", func(p, d []byte) (io.Reader, func()) {
			r := bytes.NewReader(cat(p, d))
			io.ReadFull(r, make([]byte, len(p)))
			return r, nop
		}},
		{"bytes.Reader@offset(seek)", func(p, d []byte) (io.Reader, func()) {
			r := bytes.NewReader(cat(p, d))
			r.Seek(int64(len(p)), io.SeekStart)
			return r, nop
		}},
		{"strings.Reader@offset", func(p, d []byte) (io.Reader, func()) {
			r := strings.NewReader(string(cat(p, d)))
			io.ReadFull(r, make([]byte, len(p)))
			return r, nop
		}},
		{"io.SectionReader", func(p, d []byte) (io.Reader, func()) {
			return io.NewSectionReader(bytes.NewReader(cat(p, d)), int64(len(p)), int64(len(d))), nop
		}},
		{"io.SectionReader@offset", func(p, d []byte) (io.Reader, func()) {
			r := io.NewSectionReader(bytes.NewReader(cat(p, d)), 0, int64(len(p)+len(d)))
			r.Seek(int64(len(p)), io.SeekStart)
			return r, nop
		}},
		{"bytes.Buffer", func(_, d []byte) (io.Reader, func()) { return bytes.NewBuffer(append([]byte{}, d...)), nop }},
		{"bufio.Reader@offset", func(p, d []byte) (io.Reader, func()) {
			r := bufio.NewReaderSize(bytes.NewReader(cat(p, d)), 64)
			io.ReadFull(r, make([]byte, len(p)))
			return r, nop
		}},
		{"os.File@0", func(_, d []byte) (io.Reader, func()) { return file(nil, d, true) }},
		{"os.File@offset(seek)", func(p, d []byte) (io.Reader, func()) { return file(p, d, true) }},
		{"os.File@offset(read)", func(p, d []byte) (io.Reader, func()) { return file(p, d, false) }},
	}
}

// Load through an arbitrary reader (no delivery instrumentation)
func observeLoadReader(which string, r io.Reader) (o loadObs) {
	var md *meta.Data
	var stream io.Reader
	var err error
	func() {
		defer func() {
			if p := recover(); p != nil {
				o.Status = "panic"
			}
		}()
		md, stream, err = loaders[which](r)
	}()
	if o.Status == "panic" {
		return o
	}
	if err != nil || md == nil {
		o.Status = "err"
		if err == nil {
			noteContractBreak(which, nil)
		}
	} else {
		o.Status = "ok"
		o.MD = mdString(md)
	}
	if stream == nil {
		o.NilStream = true
		return o
	}
	o.Replay, o.End = drainStream(stream)
	return o
}

// for every source kind: same outcome as on the plain bytes, and the stream replays data exactly
func checkSourceKinds(c *ctx, prop string, name string, data []byte, whichs []string, rng *rand.Rand) {
	prefix := randBytes(rng, 1+rng.Intn(40))
	if rng.Intn(3) == 0 { // a container header that itself looks like an image start
		prefix = append([]byte{0x89, 'P', 'N', 'G', 0x0d, 0x0a, 0x1a, 0x0a}, prefix...)
	}
	for _, k := range sourceKinds(c.out) {
		for _, which := range whichs {
			ref := observeLoad(which, data, allAtOnce)
			r, done := k.open(prefix, data)
			o := observeLoadReader(which, r)
			done()
			c.res.count("source-kind:"+k.name, which+"|"+string(data), true)
			in := map[string]interface{}{"input": name, "loader": which, "source": k.name, "prefix_bytes": len(prefix), "bytes": len(data), "data": shortHex(data)}
			switch {
			case o.Status == "panic":
				c.res.fail(Failure{Class: prop + ":source-kind:panic", Desc: "loader panicked on a " + k.name + " source", Input: in, Got: "panic", Want: "value or error"})
			case o.NilStream:
				c.res.fail(Failure{Class: prop + ":source-kind:nil-stream", Desc: "loader returned a nil stream for a " + k.name + " source", Input: in, Got: "nil", Want: "stream"})
			case !bytes.Equal(o.Replay, data) || o.End != "eof":
				c.res.fail(Failure{Class: prop + ":source-kind:replay", Desc: "returned stream does not yield exactly the bytes the " + k.name + " source had left (" + name + ", loader " + which + ")", Input: in,
					Got: short(fmtReplay(o.Replay, data, o.End), 160), Want: short(fmtReplay(data, data, "eof"), 80)})
			case o.outcome() != ref.outcome():
				c.res.fail(Failure{Class: prop + ":source-kind:outcome", Desc: "outcome on a " + k.name + " source differs from the outcome on the same bytes delivered plainly (" + name + ", loader " + which + ")", Input: in,
					Got: short(o.outcome(), 160), Want: short(ref.outcome(), 160)})
			}
		}
	}
}

func fmtReplay(got, want []byte, end string) string {
	return "" + itoa(len(got)) + " bytes, first difference at " + itoa(firstDiff(got, want)) + ", end=" + end
}

func itoa(n int) string {
	if n == 0 {
		return "0"
	}
	neg := n < 0
	if neg {
		n = -n
	}
	var b []byte
	for n > 0 {
		b = append([]byte{byte('0' + n%10)}, b...)
		n /= 10
	}
	if neg {
		b = append([]byte{'-'}, b...)
	}
	return string(b)
}
