package main

// C01 (and the data part of C02/C14): the decode tables are re-dumped through the public API on
// every run and written as Coq terms (coq Gen files) whose reflective checkers decide the property.

import (
	"fmt"
	"image/color"
	"math"
	"os"
	"strings"

	"github.com/mandykoh/prism/adobergb"
	"github.com/mandykoh/prism/displayp3"
	"github.com/mandykoh/prism/prophotorgb"
	"github.com/mandykoh/prism/srgb"
)

type spaceAPI struct {
	name      string
	curve     string // Coq constructor of the transfer function
	from8     func(uint8) float32
	from16    func(uint16) float32
	nrgba     func(color.NRGBA) (r, g, b, a float32)
	rgba      func(color.RGBA) (r, g, b, a float32)
	encoded   func(color.Color) (r, g, b, a float32)
	linearise func(color.Color) color.RGBA64
	to8       func(float32) uint8
	to16      func(float32) uint16
}

var spaces = []spaceAPI{
	{"srgb", "Srgb", srgb.From8Bit, srgb.From16Bit,
		func(c color.NRGBA) (float32, float32, float32, float32) {
			x, a := srgb.ColorFromNRGBA(c)
			return x.R, x.G, x.B, a
		},
		func(c color.RGBA) (float32, float32, float32, float32) {
			x, a := srgb.ColorFromRGBA(c)
			return x.R, x.G, x.B, a
		},
		func(c color.Color) (float32, float32, float32, float32) {
			x, a := srgb.ColorFromEncodedColor(c)
			return x.R, x.G, x.B, a
		},
		srgb.LineariseColor, srgb.To8Bit, srgb.To16Bit},
	{"adobergb", "Adobe", adobergb.From8Bit, adobergb.From16Bit,
		func(c color.NRGBA) (float32, float32, float32, float32) {
			x, a := adobergb.ColorFromNRGBA(c)
			return x.R, x.G, x.B, a
		},
		func(c color.RGBA) (float32, float32, float32, float32) {
			x, a := adobergb.ColorFromRGBA(c)
			return x.R, x.G, x.B, a
		},
		func(c color.Color) (float32, float32, float32, float32) {
			x, a := adobergb.ColorFromEncodedColor(c)
			return x.R, x.G, x.B, a
		},
		adobergb.LineariseColor, adobergb.To8Bit, adobergb.To16Bit},
	{"prophotorgb", "Prophoto", prophotorgb.From8Bit, prophotorgb.From16Bit,
		func(c color.NRGBA) (float32, float32, float32, float32) {
			x, a := prophotorgb.ColorFromNRGBA(c)
			return x.R, x.G, x.B, a
		},
		func(c color.RGBA) (float32, float32, float32, float32) {
			x, a := prophotorgb.ColorFromRGBA(c)
			return x.R, x.G, x.B, a
		},
		func(c color.Color) (float32, float32, float32, float32) {
			x, a := prophotorgb.ColorFromEncodedColor(c)
			return x.R, x.G, x.B, a
		},
		prophotorgb.LineariseColor, prophotorgb.To8Bit, prophotorgb.To16Bit},
	{"displayp3", "Srgb", nil, nil,
		func(c color.NRGBA) (float32, float32, float32, float32) {
			x, a := displayp3.ColorFromNRGBA(c)
			return x.R, x.G, x.B, a
		},
		func(c color.RGBA) (float32, float32, float32, float32) {
			x, a := displayp3.ColorFromRGBA(c)
			return x.R, x.G, x.B, a
		},
		func(c color.Color) (float32, float32, float32, float32) {
			x, a := displayp3.ColorFromEncodedColor(c)
			return x.R, x.G, x.B, a
		},
		displayp3.LineariseColor, srgb.To8Bit, srgb.To16Bit},
}

func eotfRef(curve string, x float64) float64 {
	switch curve {
	case "Srgb":
		if x <= 0.04045 {
			return x / 12.92
		}
		return math.Pow((x+0.055)/1.055, 2.4)
	case "Adobe":
		return math.Pow(x, 563.0/256)
	default:
		if x < 16.0/512 {
			return x / 16
		}
		return math.Pow(x, 1.8)
	}
}

func oetfRef(curve string, x float64) float64 {
	if x <= 0 {
		return 0
	}
	if x >= 1 {
		return 1
	}
	switch curve {
	case "Srgb":
		if x <= 0.0031308 {
			return x * 12.92
		}
		return 1.055*math.Pow(x, 1/2.4) - 0.055
	case "Adobe":
		return math.Pow(x, 256.0/563)
	default:
		if x < 1.0/512 {
			return 16 * x
		}
		return math.Pow(x, 1/1.8)
	}
}

const chunkLen = 2048

// writeChunks emits one Coq file per 2048-entry chunk with the given checker statement and returns
// the module names.
func writeChunks(gdir, base string, vals []uint32, stmt func(start int) string) []string {
	var mods []string
	for k := 0; k*chunkLen < len(vals); k++ {
		lo, hi := k*chunkLen, (k+1)*chunkLen
		if hi > len(vals) {
			hi = len(vals)
		}
		mod := fmt.Sprintf("%s_%02d", base, k)
		var sb strings.Builder
		sb.WriteString("(* generated on every run from the current /repo tree through the public API *)\n")
		sb.WriteString("From Coq Require Import ZArith List Uint63. Import ListNotations.\n")
		sb.WriteString("From PrismV Require Import Num.Dyadic Num.Curves Num.TableCheck.\n")
		sb.WriteString("Definition chunk : list Z := Eval vm_compute in map Uint63.to_Z [")
		for i := lo; i < hi; i++ {
			if i > lo {
				sb.WriteString(";")
			}
			if (i-lo)%16 == 0 {
				sb.WriteString("\n ")
			}
			fmt.Fprintf(&sb, "%d", vals[i])
		}
		sb.WriteString("]%uint63.\n")
		fmt.Fprintf(&sb, "Lemma len : length chunk = %d%%nat. Proof. vm_compute. reflexivity. Qed.\n", hi-lo)
		if stmt != nil {
			fmt.Fprintf(&sb, "Lemma ok : %s = true.\nProof. vm_compute. reflexivity. Qed.\n", stmt(lo))
		}
		if err := os.WriteFile(gdir+"/"+mod+".v", []byte(sb.String()), 0o644); err != nil {
			panic(err)
		}
		mods = append(mods, mod)
	}
	return mods
}

func init() {
	commands["C01"] = func(c *ctx) {
		c.res.Rule = "exhaustive: all 256 8-bit and all 65,536 16-bit codes of srgb, adobergb, prophotorgb through From8Bit/From16Bit, and of all four spaces through ColorFromNRGBA, ColorFromRGBA (opaque), ColorFromEncodedColor (opaque NRGBA64 and 8-bit colours) and LineariseColor; the per-component tables are emitted as Coq terms and decided by the reflective checker; every other entry point is compared bit-for-bit with them here; non-trivial = every (space, width, code)"
		gdir := c.out + "/Gen"
		os.MkdirAll(gdir, 0o755)
		hdr := "(* generated: the decode tables of the current tree as Coq terms, with their checked certificates *)\nFrom Coq Require Import ZArith List Lia. Import ListNotations. Open Scope Z_scope.\nFrom PrismV Require Import Num.Dyadic Num.Curves Num.TableCheck.\n"
		var tablesV strings.Builder
		var gen, stage2, stage3, exports []string
		flush := func(name string) {
			os.WriteFile(gdir+"/"+name+".v", []byte(hdr+tablesV.String()), 0o644)
			tablesV.Reset()
			exports = append(exports, name)
		}
		tables := map[string][]uint32{}
		for _, s := range spaces {
			if s.from8 == nil {
				continue
			}
			t8 := make([]uint32, 256)
			t16 := make([]uint32, 65536)
			for v := 0; v < 256; v++ {
				t8[v] = math.Float32bits(s.from8(uint8(v)))
			}
			for v := 0; v < 65536; v++ {
				t16[v] = math.Float32bits(s.from16(uint16(v)))
			}
			tables[s.name+"8"], tables[s.name+"16"] = t8, t16
			for _, tw := range []struct {
				w    int
				vals []uint32
			}{{8, t8}, {16, t16}} {
				n := 1<<uint(tw.w) - 1
				base := fmt.Sprintf("D_%s%d", s.name, tw.w)
				curve := s.curve
				mods := writeChunks(gdir, base, tw.vals, func(start int) string {
					return fmt.Sprintf("check_dec_chunk %s %d %d chunk", curve, n, start)
				})
				for _, m := range mods {
					gen = append(gen, m+".v")
				}
				tname := fmt.Sprintf("dec%d_%s", tw.w, s.name)
				fmt.Fprintf(&tablesV, "From PrismGen Require %s.\n", strings.Join(mods, " "))
				var parts []string
				for i, m := range mods {
					parts = append(parts, fmt.Sprintf("(%d, %s.chunk)", i*chunkLen, m))
				}
				fmt.Fprintf(&tablesV, "Definition %s_chunks : list (Z * list Z) := [%s].\n", tname, strings.Join(parts, "; "))
				fmt.Fprintf(&tablesV, "Definition %s : list Z := Eval vm_compute in concat (map snd %s_chunks).\n", tname, tname)
				fmt.Fprintf(&tablesV, "Lemma %s_contig : contiguous 0 %s_chunks = true. Proof. vm_compute. reflexivity. Qed.\n", tname, tname)
				fmt.Fprintf(&tablesV, "Lemma %s_certs : Forall (fun sc => check_dec_chunk %s %d (fst sc) (snd sc) = true) %s_chunks.\nProof.\n  unfold %s_chunks.\n", tname, curve, n, tname, tname)
				for _, m := range mods {
					fmt.Fprintf(&tablesV, "  apply Forall_cons; [exact %s.ok|].\n", m)
				}
				tablesV.WriteString("  apply Forall_nil.\nQed.\n")
				fmt.Fprintf(&tablesV, "Lemma %s_ok : AllIdx (dec_ok %s %d) 0 %s.\nProof. exact (dec_table_ok %s %d %s_chunks ltac:(lia) %s_contig %s_certs). Qed.\n", tname, curve, n, tname, curve, n, tname, tname, tname)
				fmt.Fprintf(&tablesV, "Lemma %s_len : Z.of_nat (length %s) = %d. Proof. vm_compute. reflexivity. Qed.\n", tname, tname, len(tw.vals))
				fmt.Fprintf(&tablesV, "Lemma %s_inc : strictly_increasing %s = true. Proof. vm_compute. reflexivity. Qed.\n", tname, tname)
				fmt.Fprintf(&tablesV, "Lemma %s_ends : nth 0 %s (-1) = 0 /\\ nth %d %s (-1) = 1065353216. Proof. vm_compute. split; reflexivity. Qed.\n", tname, tname, n, tname)
				flush("T_" + tname)
				stage2 = append(stage2, "T_"+tname+".v")
			}
			fmt.Fprintf(&tablesV, "From PrismGen Require Import T_dec8_%s T_dec16_%s.\n", s.name, s.name)
			fmt.Fprintf(&tablesV, "Lemma dec_%s_8_16 : consistent_8_16 dec8_%s dec16_%s = true. Proof. vm_compute. reflexivity. Qed.\n", s.name, s.name, s.name)
			flush("T_cons_" + s.name)
			stage3 = append(stage3, "T_cons_"+s.name+".v")
		}
		tablesV.WriteString("From PrismGen Require Import T_dec8_srgb T_dec16_srgb.\n")
		// Display P3: tables observed through its colour constructors
		p3 := spaces[3]
		p8 := make([]uint32, 256)
		p16 := make([]uint32, 65536)
		for v := 0; v < 256; v++ {
			r, _, _, _ := p3.nrgba(color.NRGBA{uint8(v), uint8(v), uint8(v), 255})
			p8[v] = math.Float32bits(r)
		}
		for v := 0; v < 65536; v++ {
			r, _, _, _ := p3.encoded(color.NRGBA64{uint16(v), uint16(v), uint16(v), 0xffff})
			p16[v] = math.Float32bits(r)
		}
		tables["displayp38"], tables["displayp316"] = p8, p16
		for _, tw := range []struct {
			w    int
			vals []uint32
		}{{8, p8}, {16, p16}} {
			base := fmt.Sprintf("D_displayp3%d", tw.w)
			mods := writeChunks(gdir, base, tw.vals, nil)
			for _, m := range mods {
				gen = append(gen, m+".v")
			}
			fmt.Fprintf(&tablesV, "From PrismGen Require %s.\n", strings.Join(mods, " "))
			var parts []string
			for _, m := range mods {
				parts = append(parts, m+".chunk")
			}
			fmt.Fprintf(&tablesV, "Definition dec%d_displayp3 : list Z := Eval vm_compute in (%s).\n", tw.w, strings.Join(parts, " ++ "))
			fmt.Fprintf(&tablesV, "Lemma dec%d_displayp3_same : same_table dec%d_displayp3 dec%d_srgb = true. Proof. vm_compute. reflexivity. Qed.\n", tw.w, tw.w, tw.w)
		}
		flush("T_displayp3")
		stage3 = append(stage3, "T_displayp3.v")
		var ex strings.Builder
		for _, e := range exports {
			fmt.Fprintf(&ex, "From PrismGen Require Export %s.\n", e)
		}
		os.WriteFile(gdir+"/Tables.v", []byte(ex.String()), 0o644)
		c.res.GenStages = [][]string{gen, stage2, stage3, {"Tables.v"}}

		// the property oracle in float64, and every other entry point against the tables
		for _, s := range spaces {
			for _, w := range []int{8, 16} {
				t := tables[fmt.Sprintf("%s%d", s.name, w)]
				n := len(t) - 1
				for v, bits := range t {
					got := float64(math.Float32frombits(bits))
					want := eotfRef(s.curve, float64(v)/float64(n))
					c.res.count(fmt.Sprintf("%s-%d", s.name, w), fmt.Sprint(s.name, w, v), true)
					in := map[string]interface{}{"space": s.name, "width": w, "code": v}
					if math.Abs(got-want) > 3e-7 || (v == 0 && bits != 0) || (v == n && bits != 0x3f800000) || (v > 0 && !(math.Float32frombits(t[v-1]) < math.Float32frombits(bits))) {
						c.res.fail(Failure{Class: fmt.Sprintf("C01:%s:%d", s.name, w), Desc: "decoded value differs from the published transfer function by more than 3e-7, or endpoint/monotonicity broken",
							Input: in, Got: fmt.Sprintf("%.9g (bits %#x)", got, bits), Want: fmt.Sprintf("%.9g", want)})
					}
					if w == 8 && tables[s.name+"16"][257*v] != bits {
						c.res.fail(Failure{Class: "C01:" + s.name + ":8-vs-16", Desc: "8-bit result differs from the 16-bit result for 257*v", Input: in,
							Got: fmt.Sprintf("%#x", bits), Want: fmt.Sprintf("%#x", tables[s.name+"16"][257*v])})
					}
				}
			}
			// constructors and converters on opaque colours
			t8, t16 := tables[s.name+"8"], tables[s.name+"16"]
			bad := func(entry string, v int, got float32, want uint32) {
				if math.Float32bits(got) != want {
					c.res.fail(Failure{Class: "C01:" + s.name + ":" + entry, Desc: entry + " on an opaque colour differs from the per-component decoder",
						Input: map[string]interface{}{"space": s.name, "entry": entry, "code": v}, Got: fmt.Sprintf("%#x", math.Float32bits(got)), Want: fmt.Sprintf("%#x", want)})
				}
			}
			for v := 0; v < 256; v++ {
				u := uint8(v)
				r, g, b, a := s.nrgba(color.NRGBA{u, uint8(255 - v), 7, 255})
				bad("ColorFromNRGBA", v, r, t8[v])
				bad("ColorFromNRGBA", 255-v, g, t8[255-v])
				bad("ColorFromNRGBA", 7, b, t8[7])
				if a != 1 {
					bad("ColorFromNRGBA-alpha", v, a, 0x3f800000)
				}
				r, g, b, _ = s.rgba(color.RGBA{u, uint8(255 - v), 7, 255})
				bad("ColorFromRGBA", v, r, t8[v])
				bad("ColorFromRGBA", 255-v, g, t8[255-v])
				bad("ColorFromRGBA", 7, b, t8[7])
				r, _, _, _ = s.encoded(color.NRGBA{u, u, u, 255})
				bad("ColorFromEncodedColor(NRGBA)", v, r, t8[v])
				r, _, _, _ = s.encoded(color.RGBA{u, u, u, 255})
				bad("ColorFromEncodedColor(RGBA)", v, r, t8[v])
				c.res.count(s.name+"-ctor8", fmt.Sprint(s.name, "c8", v), true)
			}
			// every other concrete colour type, through the generic constructor: for an opaque colour the result
			// is the 16-bit table at the components its RGBA() method reports
			for v := 0; v < 256; v++ {
				u := uint8(v)
				for _, in := range []color.Color{color.Gray{Y: u}, color.Gray16{Y: uint16(v)*257 ^ 0x55}, color.Gray16{Y: uint16(v) << 8}, color.CMYK{C: u, M: uint8(255 - v), Y: 9, K: uint8(v / 2)},
					color.CMYK{K: uint8(255 - v)}, color.YCbCr{Y: u, Cb: 128, Cr: 128}, color.YCbCr{Y: u, Cb: uint8(255 - v), Cr: 77}, color.NYCbCrA{YCbCr: color.YCbCr{Y: u, Cb: 100, Cr: 200}, A: 255},
					color.Alpha{A: 255}, color.Alpha16{A: 0xffff}, opaqueCustom{uint16(v) * 251, uint16(65535 - v*3), uint16(v)},
					// a colour object the caller keeps and overwrites between calls (pointer receiver), and one whose
					// dynamic type cannot be compared (slice): a colour is what its RGBA() reports at the time of the call
					reusedPtr.set(uint16(v)*199, uint16(v)*3, uint16(65535-v)), sliceColour{uint16(v) * 77, uint16(v), 4242}, sliceColour{uint16(v) * 77, uint16(v), 4242}} {
					r16, g16, b16, a16 := in.RGBA()
					if a16 != 0xffff {
						continue
					}
					var r, g, b float32
					if callNoPanic(func() { r, g, b, _ = s.encoded(in) }) {
						c.res.fail(Failure{Class: "C01:" + s.name + ":panic", Desc: fmt.Sprintf("ColorFromEncodedColor panicked on a colour of type %T", in), Input: map[string]interface{}{"space": s.name, "colour": fmt.Sprintf("%T%v", in, in)}, Got: "panic", Want: "decoded colour"})
						continue
					}
					entry := fmt.Sprintf("ColorFromEncodedColor(%T)", in)
					bad(entry, int(r16), r, t16[r16])
					bad(entry, int(g16), g, t16[g16])
					bad(entry, int(b16), b, t16[b16])
					var lin color.RGBA64
					if callNoPanic(func() { lin = s.linearise(in) }) {
						c.res.fail(Failure{Class: "C01:" + s.name + ":panic", Desc: fmt.Sprintf("LineariseColor panicked on a colour of type %T", in), Input: map[string]interface{}{"space": s.name, "colour": fmt.Sprintf("%T%v", in, in)}, Got: "panic", Want: "linearised colour"})
						continue
					}
					if lin.R != quant16ref(math.Float32frombits(t16[r16])) || lin.G != quant16ref(math.Float32frombits(t16[g16])) || lin.B != quant16ref(math.Float32frombits(t16[b16])) || lin.A != 0xffff {
						c.res.fail(Failure{Class: "C01:" + s.name + ":LineariseColor", Desc: fmt.Sprintf("LineariseColor on an opaque %T is not the 16-bit quantisation of the decoded value", in),
							Input: map[string]interface{}{"space": s.name, "colour": fmt.Sprintf("%T%v", in, in)}, Got: fmt.Sprint(lin), Want: "quantised table values"})
					}
				}
				c.res.count(s.name+"-ctor-kinds", fmt.Sprint(s.name, "kinds", v), true)
			}
			for v := 0; v < 65536; v++ {
				u := uint16(v)
				r, g, b, _ := s.encoded(color.NRGBA64{u, uint16(65535 - v), 1234, 0xffff})
				bad("ColorFromEncodedColor(NRGBA64)", v, r, t16[v])
				bad("ColorFromEncodedColor(NRGBA64)", 65535-v, g, t16[65535-v])
				bad("ColorFromEncodedColor(NRGBA64)", 1234, b, t16[1234])
				r, _, _, _ = s.encoded(color.RGBA64{u, u, u, 0xffff})
				bad("ColorFromEncodedColor(RGBA64)", v, r, t16[v])
				lin := s.linearise(color.NRGBA64{u, u, u, 0xffff})
				want := quant16ref(math.Float32frombits(t16[v]))
				if lin.R != want || lin.A != 0xffff {
					c.res.fail(Failure{Class: "C01:" + s.name + ":LineariseColor", Desc: "LineariseColor on an opaque colour is not the 16-bit quantisation of the decoded value",
						Input: map[string]interface{}{"space": s.name, "code": v}, Got: fmt.Sprint(lin), Want: fmt.Sprint(want)})
				}
				c.res.count(s.name+"-ctor16", fmt.Sprint(s.name, "c16", v), true)
			}
		}
		// the same tables whatever the number of processors at first use
		first := map[string][]uint32{}
		for _, s := range spaces {
			if s.from8 != nil {
				first["decode8:"+s.name], first["decode16:"+s.name] = tables[s.name+"8"], tables[s.name+"16"]
			}
		}
		checkStable(c, "C01", "decode", first)
		gomaxprocsSweep(c, "C01", "decode")
		firstCallsCheck(c, "C01")
		c.res.sample(map[string]interface{}{"space": "srgb", "width": 16, "code": 32768, "bits": fmt.Sprintf("%#x", tables["srgb16"][32768])})
		c.res.sample(map[string]interface{}{"space": "adobergb", "width": 8, "code": 128, "bits": fmt.Sprintf("%#x", tables["adobergb8"][128])})
		c.res.sample(map[string]interface{}{"space": "prophotorgb", "width": 16, "code": 1000, "bits": fmt.Sprintf("%#x", tables["prophotorgb16"][1000])})
	}
}

// a colour type the library cannot know
type ptrColour struct{ r, g, b uint16 }

func (p *ptrColour) RGBA() (uint32, uint32, uint32, uint32) {
	return uint32(p.r), uint32(p.g), uint32(p.b), 0xffff
}
func (p *ptrColour) set(r, g, b uint16) *ptrColour { p.r, p.g, p.b = r, g, b; return p }

var reusedPtr = &ptrColour{}

type sliceColour []uint16

func (c sliceColour) RGBA() (uint32, uint32, uint32, uint32) {
	return uint32(c[0]), uint32(c[1]), uint32(c[2]), 0xffff
}

type opaqueCustom struct{ r, g, b uint16 }

func (c opaqueCustom) RGBA() (uint32, uint32, uint32, uint32) {
	return uint32(c.r), uint32(c.g), uint32(c.b), 0xffff
}

func quant16ref(v float32) uint16 {
	if v <= 0 {
		return 0
	}
	if v >= 1 {
		return 65535
	}
	return uint16(v*65535 + 0.5)
}

func colourEncode(space string, r, g, b, a float32) (color.NRGBA, color.RGBA, color.RGBA64) {
	switch space {
	case "srgb":
		c := srgb.ColorFromLinear(r, g, b)
		return c.ToNRGBA(a), c.ToRGBA(a), c.ToRGBA64(a)
	case "adobergb":
		c := adobergb.ColorFromLinear(r, g, b)
		return c.ToNRGBA(a), c.ToRGBA(a), c.ToRGBA64(a)
	case "prophotorgb":
		c := prophotorgb.ColorFromLinear(r, g, b)
		return c.ToNRGBA(a), c.ToRGBA(a), c.ToRGBA64(a)
	default:
		c := displayp3.ColorFromLinear(r, g, b)
		return c.ToNRGBA(a), c.ToRGBA(a), c.ToRGBA64(a)
	}
}
