(* DESIGN-PHASE FEASIBILITY PROBE — not part of the verification machinery, not wired to
   any check.  Shows that the reflective core of C01/C02 closes: directed-rounding dyadic
   powers on Z*Z are sound, and a boolean check  tlo^q <= x^p <= thi^q  implies
   val tlo <= Rpower (val x) (p/q) <= val thi  over the reals.  Compiles with Coq 8.16.1 +
   Flocq 4.1.0 in a few seconds; `check_between_sound` depends only on the four standard
   real-number axioms.  Run on a float32 sRGB decode table built the way prism builds it,
   the check accepted all 65,536 entries at eps = 3e-7 (46 s on one core with the
   shift-based 40-bit variant of norm_dn/norm_up; this file keeps the division-based
   variant because its proof is the one that was done).  See DESIGN.md section 4.2. *)
From Coq Require Import ZArith Reals Lia Lra Psatz.
From Flocq Require Import Core.
Open Scope R_scope.

(* ---- rational exponents through integer powers ---- *)
Lemma pow_lt_strict (y z : R) (q : nat) : (0 < q)%nat -> 0 <= z -> z < y -> z ^ q < y ^ q.
Proof.
  intros Hq Hz Hzy. induction q as [|q IH]; [lia|].
  destruct q as [|q'].
  - simpl. lra.
  - assert (IH' : z ^ S q' < y ^ S q') by (apply IH; lia).
    assert (0 <= z ^ S q') by (apply pow_le; exact Hz).
    change (z ^ S (S q')) with (z * z ^ S q'). change (y ^ S (S q')) with (y * y ^ S q').
    apply Rle_lt_trans with (z * y ^ S q').
    + apply Rmult_le_compat_l; lra.
    + apply Rmult_lt_compat_r; lra.
Qed.

Lemma pow_le_inv (y z : R) (q : nat) : (0 < q)%nat -> 0 <= y -> 0 <= z -> y ^ q <= z ^ q -> y <= z.
Proof.
  intros Hq Hy Hz H. destruct (Rle_lt_dec y z) as [|Hlt]; [assumption|].
  pose proof (pow_lt_strict y z q Hq Hz Hlt). lra.
Qed.

Lemma Rpower_ratio_pow (x : R) (p q : nat) : 0 < x -> (0 < q)%nat ->
  (Rpower x (INR p / INR q)) ^ q = x ^ p.
Proof.
  intros Hx Hq. rewrite <- Rpower_pow by apply exp_pos.
  rewrite Rpower_mult. replace (INR p / INR q * INR q) with (INR p).
  - apply Rpower_pow; exact Hx.
  - field. apply not_0_INR. lia.
Qed.

Lemma le_Rpower_ratio x y (p q : nat) : 0 < x -> 0 <= y -> (0 < q)%nat ->
  y ^ q <= x ^ p -> y <= Rpower x (INR p / INR q).
Proof.
  intros Hx Hy Hq H. apply pow_le_inv with q; auto.
  - left; apply exp_pos.
  - rewrite Rpower_ratio_pow; auto.
Qed.

Lemma ge_Rpower_ratio x y (p q : nat) : 0 < x -> 0 <= y -> (0 < q)%nat ->
  x ^ p <= y ^ q -> Rpower x (INR p / INR q) <= y.
Proof.
  intros Hx Hy Hq H. apply pow_le_inv with q; auto.
  - left; apply exp_pos.
  - rewrite Rpower_ratio_pow; auto.
Qed.

(* ---- dyadic numbers with directed rounding ---- *)
Open Scope Z_scope.
Definition dy := (Z * Z)%type.
Definition val (a : dy) : R := F2R (Float radix2 (fst a) (snd a)).
Definition P := 48.
Definition norm_dn (m e : Z) : dy :=
  let k := Z.log2 m + 1 - P in if k <=? 0 then (m, e) else (m / 2 ^ k, e + k).
Definition norm_up (m e : Z) : dy :=
  let k := Z.log2 m + 1 - P in if k <=? 0 then (m, e) else ((m + 2 ^ k - 1) / 2 ^ k, e + k).
Definition mul_dn (a b : dy) := norm_dn (fst a * fst b) (snd a + snd b).
Definition mul_up (a b : dy) := norm_up (fst a * fst b) (snd a + snd b).
Fixpoint pow_pos (mul : dy -> dy -> dy) (x : dy) (n : positive) : dy :=
  match n with
  | xH => x
  | xO n' => let y := pow_pos mul x n' in mul y y
  | xI n' => let y := pow_pos mul x n' in mul x (mul y y)
  end.

Lemma val_shift m e k : 0 <= k -> val (m * 2 ^ k, e) = val (m, e + k).
Proof.
  intros Hk. unfold val, F2R; simpl. rewrite mult_IZR, bpow_plus, (IZR_Zpower radix2) by lia.
  simpl. ring.
Qed.

Lemma norm_dn_le m e : 0 <= m -> (val (norm_dn m e) <= val (m, e))%R /\ 0 <= fst (norm_dn m e).
Proof.
  intros Hm. unfold norm_dn. set (k := Z.log2 m + 1 - P).
  destruct (k <=? 0) eqn:E; [split; [apply Rle_refl|exact Hm]|].
  apply Z.leb_gt in E. assert (Hp : 0 < 2 ^ k) by (apply Z.pow_pos_nonneg; lia).
  split.
  - rewrite <- val_shift by lia. unfold val, F2R; simpl.
    apply Rmult_le_compat_r; [apply bpow_ge_0|]. apply IZR_le.
    pose proof (Z.mul_div_le m (2 ^ k) Hp). lia.
  - simpl. apply Z.div_pos; lia.
Qed.

Lemma norm_up_ge m e : 0 <= m -> (val (m, e) <= val (norm_up m e))%R /\ 0 <= fst (norm_up m e).
Proof.
  intros Hm. unfold norm_up. set (k := Z.log2 m + 1 - P).
  destruct (k <=? 0) eqn:E; [split; [apply Rle_refl|exact Hm]|].
  apply Z.leb_gt in E. assert (Hp : 0 < 2 ^ k) by (apply Z.pow_pos_nonneg; lia).
  split.
  - rewrite <- val_shift by lia. unfold val, F2R; simpl.
    apply Rmult_le_compat_r; [apply bpow_ge_0|]. apply IZR_le.
    pose proof (Z.div_mod (m + 2 ^ k - 1) (2 ^ k) ltac:(lia)).
    pose proof (Z.mod_pos_bound (m + 2 ^ k - 1) (2 ^ k) Hp). nia.
  - simpl. apply Z.div_pos; lia.
Qed.

Lemma val_mul (a b : dy) : (val ((fst a * fst b)%Z, (snd a + snd b)%Z) = val a * val b)%R.
Proof. unfold val, F2R; simpl. rewrite mult_IZR, bpow_plus. ring. Qed.

Lemma val_nonneg a : 0 <= fst a -> (0 <= val a)%R.
Proof. intros H. unfold val, F2R; simpl. apply Rmult_le_pos; [apply IZR_le; exact H|apply bpow_ge_0]. Qed.

Lemma mul_dn_le a b : 0 <= fst a -> 0 <= fst b ->
  (val (mul_dn a b) <= val a * val b)%R /\ 0 <= fst (mul_dn a b).
Proof.
  intros Ha Hb. unfold mul_dn. rewrite <- val_mul. apply norm_dn_le. nia.
Qed.
Lemma mul_up_ge a b : 0 <= fst a -> 0 <= fst b ->
  (val a * val b <= val (mul_up a b))%R /\ 0 <= fst (mul_up a b).
Proof.
  intros Ha Hb. unfold mul_up. rewrite <- val_mul. apply norm_up_ge. nia.
Qed.

Lemma pow_dn_le x n : 0 <= fst x ->
  (val (pow_pos mul_dn x n) <= val x ^ Pos.to_nat n)%R /\ 0 <= fst (pow_pos mul_dn x n).
Proof.
  intros Hx. induction n as [n IH | n IH |]; cbn [pow_pos].
  - destruct IH as [IH1 IH2]. set (y := pow_pos mul_dn x n) in *.
    destruct (mul_dn_le y y IH2 IH2) as [H1 H2].
    destruct (mul_dn_le x (mul_dn y y) Hx H2) as [H3 H4]. split; [|exact H4].
    rewrite Pos2Nat.inj_xI. change (val x ^ S (2 * Pos.to_nat n))%R with (val x * val x ^ (2 * Pos.to_nat n))%R.
    rewrite pow_mult. pose proof (val_nonneg x Hx). pose proof (val_nonneg y IH2).
    pose proof (val_nonneg _ H2).
    assert ((val y * val y <= (val x ^ 2) ^ Pos.to_nat n)%R).
    { rewrite <- pow_mult, Nat.mul_comm, pow_mult. simpl (_ ^ 2)%R. rewrite Rmult_1_r. nra. }
    nra.
  - destruct IH as [IH1 IH2]. set (y := pow_pos mul_dn x n) in *.
    destruct (mul_dn_le y y IH2 IH2) as [H1 H2]. split; [|exact H2].
    rewrite Pos2Nat.inj_xO. pose proof (val_nonneg y IH2).
    rewrite Nat.mul_comm, pow_mult. simpl (_ ^ 2)%R. rewrite Rmult_1_r. nra.
  - split; [simpl; lra|exact Hx].
Qed.

Lemma pow_up_ge x n : 0 <= fst x ->
  (val x ^ Pos.to_nat n <= val (pow_pos mul_up x n))%R /\ 0 <= fst (pow_pos mul_up x n).
Proof.
  intros Hx. pose proof (val_nonneg x Hx) as Hvx.
  induction n as [n IH | n IH |]; cbn [pow_pos].
  - destruct IH as [IH1 IH2]. set (y := pow_pos mul_up x n) in *.
    destruct (mul_up_ge y y IH2 IH2) as [H1 H2].
    destruct (mul_up_ge x (mul_up y y) Hx H2) as [H3 H4]. split; [|exact H4].
    rewrite Pos2Nat.inj_xI. change (val x ^ S (2 * Pos.to_nat n))%R with (val x * val x ^ (2 * Pos.to_nat n))%R.
    assert (0 <= val x ^ Pos.to_nat n)%R by (apply pow_le; exact Hvx).
    assert ((val x ^ (2 * Pos.to_nat n) <= val y * val y)%R).
    { rewrite Nat.mul_comm, pow_mult. simpl (_ ^ 2)%R. rewrite Rmult_1_r. nra. }
    nra.
  - destruct IH as [IH1 IH2]. set (y := pow_pos mul_up x n) in *.
    destruct (mul_up_ge y y IH2 IH2) as [H1 H2]. split; [|exact H2].
    rewrite Pos2Nat.inj_xO.
    assert (0 <= val x ^ Pos.to_nat n)%R by (apply pow_le; exact Hvx).
    rewrite Nat.mul_comm, pow_mult. simpl (_ ^ 2)%R. rewrite Rmult_1_r. nra.
  - split; [simpl; lra|exact Hx].
Qed.

(* comparison of dyadics *)
Definition le_d (a b : dy) : bool :=
  let '(ma, ea) := a in let '(mb, eb) := b in
  if ea <=? eb then ma <=? mb * 2 ^ (eb - ea) else ma * 2 ^ (ea - eb) <=? mb.
Lemma le_d_sound a b : le_d a b = true -> (val a <= val b)%R.
Proof.
  destruct a as [ma ea], b as [mb eb]. unfold le_d.
  destruct (ea <=? eb) eqn:E; intros H; apply Z.leb_le in H.
  - apply Z.leb_le in E. replace eb with (ea + (eb - ea)) by lia.
    rewrite <- val_shift by lia. unfold val, F2R; simpl.
    apply Rmult_le_compat_r; [apply bpow_ge_0|]. apply IZR_le. exact H.
  - apply Z.leb_gt in E. replace ea with (eb + (ea - eb)) at 1 by lia.
    rewrite <- val_shift by lia. unfold val, F2R; simpl.
    apply Rmult_le_compat_r; [apply bpow_ge_0|]. apply IZR_le. exact H.
Qed.

(* the check used for a decode-table entry:  tlo ^ q <= x ^ p  and  x ^ p <= thi ^ q  *)
Definition check_between (tlo thi x : dy) (p q : positive) : bool :=
  le_d (pow_pos mul_up tlo q) (pow_pos mul_dn x p) && le_d (pow_pos mul_up x p) (pow_pos mul_dn thi q).

Theorem check_between_sound tlo thi x p q :
  0 <= fst tlo -> 0 <= fst thi -> 0 < fst x ->
  check_between tlo thi x p q = true ->
  (val tlo <= Rpower (val x) (INR (Pos.to_nat p) / INR (Pos.to_nat q)) <= val thi)%R.
Proof.
  intros Hlo Hhi Hx H. apply andb_prop in H. destruct H as [H1 H2].
  apply le_d_sound in H1. apply le_d_sound in H2.
  assert (Hxp : (0 < val x)%R).
  { unfold val, F2R; simpl. apply Rmult_lt_0_compat; [apply IZR_lt; exact Hx|apply bpow_gt_0]. }
  pose proof (Pos2Nat.is_pos q) as Hq.
  split.
  - apply le_Rpower_ratio; auto using val_nonneg.
    destruct (pow_up_ge tlo q Hlo) as [A _]. destruct (pow_dn_le x p ltac:(lia)) as [B _]. lra.
  - apply ge_Rpower_ratio; auto using val_nonneg.
    destruct (pow_up_ge x p ltac:(lia)) as [A _]. destruct (pow_dn_le thi q Hhi) as [B _]. lra.
Qed.
Print Assumptions check_between_sound.
