(* DESIGN-PHASE FEASIBILITY PROBE — not part of the verification machinery, not wired to
   any check.  Question answered: can "JPEG APP2 ICC chunks in ANY order reassemble to
   exactly the embedded profile, whatever the chunk sizes" be proved for the slot-array
   algorithm of jpegmeta.extractMetadata (allocate on first chunk, reject wrong totals,
   out-of-range numbers and duplicates, count, concatenate)?  Yes: `reassemble_any_order`
   — for every chunk list whose sequence numbers are a Permutation of 1..n with all totals
   n — by the invariant "slot k holds the data of the chunk numbered k+1 seen so far".
   Closed under the global context; the byte type is a section variable.  The model here is
   the post-repair behaviour (a recorded error is kept, cf. DESIGN.md section 6 item 3).
   See DESIGN.md C06. *)
From Coq Require Import List Arith Lia Bool Permutation.
Import ListNotations.

Section R.
Variable byte : Type.
Record chunk := { cseq : nat; ctotal : nat; cdata : list byte }.

(* reassembly state of jpegmeta.extractMetadata (post-repair: a recorded error is kept) *)
Record rs := { slots : option (list (option (list byte))); count : nat; iccerr : bool }.
Definition rs0 : rs := {| slots := None; count := 0; iccerr := false |}.

Fixpoint set_nth {A} (l : list A) (k : nat) (v : A) : list A :=
  match l, k with
  | [], _ => []
  | _ :: t, 0 => v :: t
  | h :: t, S k' => h :: set_nth t k' v
  end.

Definition step (s : rs) (c : chunk) : rs :=
  if iccerr s then s else
  let sl := match slots s with None => repeat None (ctotal c) | Some sl => sl end in
  if negb (Nat.eqb (ctotal c) (length sl)) then {| slots := Some sl; count := count s; iccerr := true |}
  else if (Nat.eqb (cseq c) 0 || Nat.ltb (length sl) (cseq c)) then {| slots := Some sl; count := count s; iccerr := true |}
  else match nth (cseq c - 1) sl None with
       | Some _ => {| slots := Some sl; count := count s; iccerr := true |}
       | None => {| slots := Some (set_nth sl (cseq c - 1) (Some (cdata c))); count := S (count s); iccerr := false |}
       end.

Inductive icc := NoProfile | IccError | IccData (d : list byte).
Definition finish (s : rs) : icc :=
  if iccerr s then IccError else
  match slots s with
  | None => NoProfile
  | Some sl => if Nat.eqb (count s) (length sl)
               then IccData (concat (map (fun o => match o with Some d => d | None => [] end) sl))
               else IccError
  end.
Definition reassemble (cs : list chunk) : icc := finish (fold_left step cs rs0).

(* ---- specification ---- *)
Definition data_of (cs : list chunk) (k : nat) : list byte :=
  match find (fun c => Nat.eqb (cseq c) k) cs with Some c => cdata c | None => [] end.
Definition spec (cs : list chunk) (n : nat) : list byte := concat (map (data_of cs) (seq 1 n)).

Lemma set_nth_length {A} (l : list A) k v : length (set_nth l k v) = length l.
Proof. revert k; induction l as [|h t IH]; intros [|k]; simpl; auto. Qed.
Lemma nth_set_nth_eq {A} (l : list A) k v d : k < length l -> nth k (set_nth l k v) d = v.
Proof. revert k; induction l as [|h t IH]; intros [|k] H; simpl in *; try lia; auto. apply IH; lia. Qed.
Lemma nth_set_nth_neq {A} (l : list A) k j v d : j <> k -> nth j (set_nth l k v) d = nth j l d.
Proof. revert k j; induction l as [|h t IH]; intros [|k] [|j] H; simpl; auto; try lia. Qed.

(* invariant after a prefix [pre] whose sequence numbers are distinct and in 1..n *)
Definition good (n : nat) (pre : list chunk) (s : rs) : Prop :=
  iccerr s = false /\ count s = length pre /\
  (pre = [] -> slots s = None) /\
  (pre <> [] -> exists sl, slots s = Some sl /\ length sl = n /\
     forall k, k < n -> nth k sl None =
       match find (fun c => Nat.eqb (cseq c) (S k)) pre with Some c => Some (cdata c) | None => None end).

Lemma find_app_none {A} f (l1 l2 : list A) : find f l1 = None -> find f (l1 ++ l2) = find f l2.
Proof. induction l1 as [|a l IH]; simpl; auto. destruct (f a); [discriminate|auto]. Qed.
Lemma find_app_some {A} f (l1 l2 : list A) x : find f l1 = Some x -> find f (l1 ++ l2) = Some x.
Proof. induction l1 as [|a l IH]; simpl; [discriminate|]. destruct (f a); auto. Qed.

Lemma find_none_seq pre k : ~ In k (map cseq pre) -> find (fun c => Nat.eqb (cseq c) k) pre = None.
Proof.
  induction pre as [|c pre IH]; simpl; auto. intros H.
  destruct (Nat.eqb (cseq c) k) eqn:E; [apply Nat.eqb_eq in E; tauto|]. apply IH. tauto.
Qed.

Lemma step_good n pre s c : 1 <= n -> good n pre s ->
  ctotal c = n -> 1 <= cseq c <= n -> ~ In (cseq c) (map cseq pre) ->
  good n (pre ++ [c]) (step s c).
Proof.
  intros Hn (He & Hc & H0 & H1) Ht Hs Hnew. unfold step. rewrite He.
  set (sl := match slots s with None => repeat None (ctotal c) | Some sl => sl end).
  assert (Hsl : length sl = n /\ forall k, k < n -> nth k sl None =
       match find (fun c => Nat.eqb (cseq c) (S k)) pre with Some c => Some (cdata c) | None => None end).
  { unfold sl. destruct pre as [|p pre'].
    - rewrite (H0 eq_refl). rewrite repeat_length. split; [exact Ht|]. intros k Hk. simpl.
      clear. revert k. induction (ctotal c) as [|m IH]; intros [|k]; simpl; auto.
    - destruct (H1 ltac:(discriminate)) as (sl' & E & L & F). rewrite E. auto. }
  destruct Hsl as [Hlen Hnth].
  rewrite Ht, Hlen, Nat.eqb_refl. cbn [negb].
  replace (Nat.eqb (cseq c) 0) with false by (symmetry; apply Nat.eqb_neq; lia).
  replace (Nat.ltb n (cseq c)) with false by (symmetry; apply Nat.ltb_ge; lia). cbn [orb].
  rewrite (Hnth (cseq c - 1)) by lia. replace (S (cseq c - 1)) with (cseq c) by lia.
  rewrite find_none_seq by exact Hnew.
  split; [reflexivity|]. split; [cbn [count]; rewrite app_length; simpl; lia|].
  split; [intros H; destruct pre; discriminate|]. intros _.
  exists (set_nth sl (cseq c - 1) (Some (cdata c))). split; [reflexivity|].
  split; [rewrite set_nth_length; exact Hlen|].
  intros k Hk. destruct (Nat.eq_dec k (cseq c - 1)) as [->|Hne].
  - rewrite nth_set_nth_eq by lia. replace (S (cseq c - 1)) with (cseq c) by lia.
    rewrite find_app_none by (apply find_none_seq; exact Hnew). simpl. rewrite Nat.eqb_refl. reflexivity.
  - rewrite nth_set_nth_neq by exact Hne. rewrite (Hnth k Hk).
    destruct (find (fun c0 => Nat.eqb (cseq c0) (S k)) pre) as [c0|] eqn:E.
    + rewrite (find_app_some _ _ _ _ E). reflexivity.
    + rewrite find_app_none by exact E. simpl.
      replace (Nat.eqb (cseq c) (S k)) with false by (symmetry; apply Nat.eqb_neq; lia). reflexivity.
Qed.

Lemma nodup_mid {A} (l1 l2 : list A) x : NoDup ((l1 ++ [x]) ++ l2) -> ~ In x l1.
Proof.
  rewrite <- app_assoc. simpl. intros H Hin. apply NoDup_remove_2 in H. apply H. apply in_or_app. left. exact Hin.
Qed.

Lemma fold_good n : forall rest pre s, 1 <= n -> good n pre s ->
  (forall c, In c rest -> ctotal c = n /\ 1 <= cseq c <= n) -> NoDup (map cseq (pre ++ rest)) ->
  good n (pre ++ rest) (fold_left step rest s).
Proof.
  induction rest as [|c rest IH]; intros pre s Hn Hg Hall Hnd.
  - rewrite app_nil_r. exact Hg.
  - cbn [fold_left]. replace (pre ++ c :: rest) with ((pre ++ [c]) ++ rest) in * by (rewrite <- app_assoc; reflexivity).
    apply IH; auto.
    + destruct (Hall c (or_introl eq_refl)) as [Ht Hs]. apply step_good; auto.
      rewrite map_app, map_app in Hnd. simpl in Hnd. eapply nodup_mid; exact Hnd.
    + intros c' Hin. apply Hall. right. exact Hin.
Qed.

Lemma map_nth_seq {A B} (f : A -> B) (g : nat -> B) d : forall (l : list A) start,
  (forall k, k < length l -> f (nth k l d) = g (start + k)) -> map f l = map g (seq start (length l)).
Proof.
  induction l as [|a l IH]; intros start H; [reflexivity|]. cbn [map length seq]. f_equal.
  - specialize (H 0 ltac:(simpl; lia)). simpl in H. rewrite Nat.add_0_r in H. exact H.
  - apply IH. intros k Hk. specialize (H (S k) ltac:(simpl; lia)). simpl in H.
    rewrite Nat.add_succ_r in H. exact H.
Qed.

(* C06 (JPEG): chunks in ANY order reassemble to the profile, whatever the sizes *)
Theorem reassemble_any_order (cs : list chunk) (n : nat) :
  1 <= n -> Permutation (map cseq cs) (seq 1 n) -> (forall c, In c cs -> ctotal c = n) ->
  reassemble cs = IccData (spec cs n).
Proof.
  intros Hn Hperm Htot.
  assert (Hnd : NoDup (map cseq cs)) by (eapply Permutation_NoDup; [apply Permutation_sym; exact Hperm|apply seq_NoDup]).
  assert (Hrange : forall c, In c cs -> ctotal c = n /\ 1 <= cseq c <= n).
  { intros c Hin. split; [auto|]. assert (In (cseq c) (seq 1 n)).
    { eapply Permutation_in; [exact Hperm|]. apply in_map. exact Hin. }
    apply in_seq in H. lia. }
  assert (Hlen : length cs = n).
  { rewrite <- (map_length cseq). rewrite (Permutation_length Hperm). apply seq_length. }
  assert (G0 : good n [] rs0) by (unfold good, rs0; simpl; repeat split; auto; congruence).
  pose proof (fold_good n cs [] rs0 Hn G0 Hrange Hnd) as (He & Hc & _ & H1). simpl in *.
  unfold reassemble, finish. rewrite He.
  destruct cs as [|c0 cs']; [simpl in Hlen; lia|].
  destruct (H1 ltac:(discriminate)) as (sl & Esl & Lsl & Fsl). rewrite Esl, Hc, Lsl, Hlen, Nat.eqb_refl.
  f_equal. unfold spec.
  (* slot k holds the data of the chunk numbered k+1 *)
  assert (Hmap : map (fun o => match o with Some d => d | None => [] end) sl = map (data_of (c0 :: cs')) (seq 1 n)).
  { rewrite <- Lsl. apply map_nth_seq with (d := None). intros k Hk. rewrite Fsl by lia.
    unfold data_of. simpl (1 + k). destruct (find _ (c0 :: cs')); reflexivity. }
  rewrite Hmap. reflexivity.
Qed.
End R.
Print Assumptions reassemble_any_order.
