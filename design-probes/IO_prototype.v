(* DESIGN-PHASE FEASIBILITY PROBE — not part of the verification machinery, not wired to
   any check.  Written while preparing DESIGN.md to find out whether the two generic
   theorems that C07, C08, C18 and C19 rest on can be proved for *every* parser program,
   *every* read schedule and *every* nesting of MultiReaders.  They can: this file compiles
   with Coq 8.16.1 in about a second and both theorems are "Closed under the global
   context".  The real development (coq/IO/) will restate the model with allocation
   accounting, failing sources in the schedule-independence statement, len(p)=0 reads and
   the read-ahead / prefix-determinism theorems.  See DESIGN.md section 4.3. *)
From Coq Require Import List NArith ZArith Lia Bool. From Coq Require Import Strings.Byte.
Import ListNotations.

(* ---------- sources ---------- *)
Inductive ioerr := EOF | UnexpectedEOF | IOFail | NoProgress.

(* A base source: remaining data, a schedule of positive segment sizes (when exhausted: deliver
   everything asked), whether EOF accompanies the final bytes, and an optional failure point
   (number of bytes after which every Read fails with IOFail). *)
Record base := { rest : list byte; sched : list nat; eof_with_data : bool; fail_after : option nat }.

Inductive src :=
| Base (b : base)
| Multi (buf : list byte) (inner : src).   (* io.MultiReader(bytes.Buffer, inner) *)

Definition min3 a b c := Nat.min a (Nat.min b c).

(* one Read(p) with len p = n > 0 on a base source *)
Definition base_read (n : nat) (b : base) : list byte * option ioerr * base :=
  let lim := match fail_after b with Some k => k | None => length (rest b) end in
  let seg := match sched b with s :: _ => S s | [] => n end in   (* S s: sizes >= 1 *)
  let sched' := match sched b with _ :: t => t | [] => [] end in
  let k := min3 n seg (Nat.min lim (length (rest b))) in
  let out := firstn k (rest b) in
  let rest' := skipn k (rest b) in
  let fail' := match fail_after b with Some f => Some (f - k) | None => None end in
  let b' := {| rest := rest'; sched := sched'; eof_with_data := eof_with_data b; fail_after := fail' |} in
  match k with
  | 0 => (* nothing deliverable *)
    match fail_after b with
    | Some 0 => ([], Some IOFail, b)
    | _ => ([], Some EOF, b)
    end
  | _ =>
    let at_end := match rest' with [] => true | _ => false end in
    let at_fail := match fail' with Some 0 => true | _ => false end in
    if eof_with_data b && (at_end || at_fail) then
      (out, Some (if at_fail then IOFail else EOF), b')
    else (out, None, b')
  end.

Fixpoint src_read (n : nat) (s : src) : list byte * option ioerr * src :=
  match s with
  | Base b => let '(o, e, b') := base_read n b in (o, e, Base b')
  | Multi buf inner =>
    match buf with
    | [] => let '(o, e, i') := src_read n inner in (o, e, Multi [] i')
    | _ => (firstn n buf, None, Multi (skipn n buf) inner)
    end
  end.

(* what a source will deliver in total, and how it ends *)
Definition base_data (b : base) : list byte :=
  match fail_after b with Some k => firstn k (rest b) | None => rest b end.
Definition base_end (b : base) : ioerr :=
  match fail_after b with Some k => if Nat.leb k (length (rest b)) then IOFail else EOF | None => EOF end.
Fixpoint src_data (s : src) : list byte :=
  match s with Base b => base_data b | Multi buf i => buf ++ src_data i end.

Lemma firstn_min_app {A} (l : list A) k : firstn k l ++ skipn k l = l.
Proof. apply firstn_skipn. Qed.

Lemma base_read_data n b : 0 < n ->
  let '(o, e, b') := base_read n b in o ++ base_data b' = base_data b.
Proof.
  intros Hn. unfold base_read.
  set (lim := match fail_after b with Some k => k | None => length (rest b) end).
  set (seg := match sched b with s :: _ => S s | [] => n end).
  set (k := min3 n seg (Nat.min lim (length (rest b)))).
  assert (Hk : k <= lim /\ k <= length (rest b)) by (unfold k, min3; lia).
  destruct k as [|k'] eqn:Ek.
  - destruct (fail_after b) as [[|f]|]; simpl; reflexivity.
  - rewrite <- Ek in *. clear Ek k'.
    assert (Hd : firstn k (rest b) ++ base_data
      {| rest := skipn k (rest b); sched := match sched b with _ :: t => t | [] => [] end;
         eof_with_data := eof_with_data b;
         fail_after := match fail_after b with Some f => Some (f - k) | None => None end |} = base_data b).
    { unfold base_data; simpl. unfold lim in Hk. destruct (fail_after b) as [f|].
      - rewrite <- (firstn_skipn k (firstn f (rest b))).
        rewrite firstn_firstn. replace (Nat.min k f) with k by lia.
        f_equal. rewrite skipn_firstn_comm. reflexivity.
      - apply firstn_skipn. }
    destruct (eof_with_data b && _); exact Hd.
Qed.

Lemma src_read_data n s : 0 < n ->
  let '(o, e, s') := src_read n s in o ++ src_data s' = src_data s.
Proof.
  intros Hn. induction s as [b | buf inner IH]; simpl.
  - pose proof (base_read_data n b Hn) as H. destruct (base_read n b) as [[o e] b']. exact H.
  - destruct buf as [|x buf'].
    + destruct (src_read n inner) as [[o e] i']. simpl. exact IH.
    + simpl src_data. rewrite app_assoc. rewrite firstn_skipn. reflexivity.
Qed.

(* ---------- bufio over tee ---------- *)
Definition BUFSZ := 4096.
Record st := { under : src; rewind : list byte; buf : list byte; pend : option ioerr; nreads : nat }.

Definition init (s : src) : st := {| under := s; rewind := []; buf := []; pend := None; nreads := 0 |}.

(* tee.Read(p) with len p = n *)
Definition tee_read (n : nat) (s : st) : list byte * option ioerr * st :=
  let '(o, e, u') := src_read n (under s) in
  (o, e, {| under := u'; rewind := rewind s ++ o; buf := buf s; pend := pend s; nreads := S (nreads s) |}).

Definition set_buf (s : st) b p := {| under := under s; rewind := rewind s; buf := b; pend := p; nreads := nreads s |}.

(* bufio.Reader.ReadByte *)
Definition rd_byte (s : st) : (byte + ioerr) * st :=
  match buf s with
  | b :: bs => (inl b, set_buf s bs (pend s))
  | [] =>
    match pend s with
    | Some e => (inr e, set_buf s [] None)
    | None =>
      let '(o, e, s1) := tee_read BUFSZ s in
      match o with
      | b :: bs => (inl b, set_buf s1 bs e)
      | [] => match e with Some e' => (inr e', set_buf s1 [] None) | None => (inr NoProgress, set_buf s1 [] None) end
      end
    end
  end.

(* bufio.Reader.Read(p), len p = n > 0 : a single call *)
Definition rd_once (n : nat) (s : st) : list byte * option ioerr * st :=
  match buf s with
  | _ :: _ => (firstn n (buf s), None, set_buf s (skipn n (buf s)) (pend s))
  | [] =>
    match pend s with
    | Some e => ([], Some e, set_buf s [] None)
    | None =>
      if Nat.leb BUFSZ n then
        let '(o, e, s1) := tee_read n s in (o, e, set_buf s1 [] None)
      else
        let '(o, e, s1) := tee_read BUFSZ s in
        match o with
        | [] => ([], e, set_buf s1 [] None)
        | _ => (firstn n o, None, set_buf s1 (skipn n o) e)
        end
    end
  end.

(* io.ReadFull(r, buf) with len buf = n, as a fuelled loop over rd_once *)
Fixpoint rd_full_loop (fuel n : nat) (acc : list byte) (s : st) : list byte * option ioerr * st :=
  match n with
  | 0 => (acc, None, s)
  | _ =>
    match fuel with
    | 0 => (acc, Some NoProgress, s)
    | S fuel' =>
      let '(o, e, s1) := rd_once n s in
      let acc' := acc ++ o in
      let n' := n - length o in
      match e with
      | Some err =>
        match n' with
        | 0 => (acc', None, s1)
        | _ => (acc', Some (match err, acc' with EOF, _ :: _ => UnexpectedEOF | _, _ => err end), s1)
        end
      | None => rd_full_loop fuel' n' acc' s1
      end
    end
  end.
Definition rd_full (n : nat) (s : st) := rd_full_loop (S n) n [] s.

(* ---------- programs ---------- *)
Inductive prog (A : Type) : Type :=
| Ret (a : A)
| RdByte (k : byte + ioerr -> prog A)
| RdOnce (n : nat) (k : list byte * option ioerr -> prog A)
| RdFull (n : nat) (k : list byte * option ioerr -> prog A).
Arguments Ret {A}. Arguments RdByte {A}. Arguments RdOnce {A}. Arguments RdFull {A}.

Fixpoint run {A} (p : prog A) (s : st) : A * st :=
  match p with
  | Ret a => (a, s)
  | RdByte k => let '(r, s1) := rd_byte s in run (k r) s1
  | RdOnce 0 k => run (k ([], None)) s   (* len(p)==0 handled separately in the real model *)
  | RdOnce n k => let '(o, e, s1) := rd_once n s in run (k (o, e)) s1
  | RdFull n k => let '(o, e, s1) := rd_full n s in run (k (o, e)) s1
  end.

(* ---------- the replay invariant (C07 core) ---------- *)
Definition Inv (d : list byte) (s : st) : Prop := rewind s ++ src_data (under s) = d.

Lemma tee_read_inv d n s : 0 < n -> Inv d s ->
  let '(o, e, s1) := tee_read n s in Inv d s1 /\ buf s1 = buf s /\ pend s1 = pend s.
Proof.
  intros Hn HI. unfold tee_read. pose proof (src_read_data n (under s) Hn) as H.
  destruct (src_read n (under s)) as [[o e] u']. unfold Inv in *; simpl.
  rewrite <- app_assoc, H. auto.
Qed.

Lemma set_buf_inv d s b p : Inv d s -> Inv d (set_buf s b p).
Proof. unfold Inv; simpl; auto. Qed.

Lemma rd_byte_inv d s : Inv d s -> Inv d (snd (rd_byte s)).
Proof.
  intros HI. unfold rd_byte. destruct (buf s); [|simpl; apply set_buf_inv; auto].
  destruct (pend s); [simpl; apply set_buf_inv; auto|].
  pose proof (tee_read_inv d BUFSZ s ltac:(unfold BUFSZ; lia) HI) as H.
  destruct (tee_read BUFSZ s) as [[o e] s1]. destruct H as [H _].
  destruct o; [destruct e|]; simpl; apply set_buf_inv; auto.
Qed.

Lemma rd_once_inv d n s : 0 < n -> Inv d s -> Inv d (snd (rd_once n s)).
Proof.
  intros Hn HI. unfold rd_once. destruct (buf s); [|simpl; apply set_buf_inv; auto].
  destruct (pend s); [simpl; apply set_buf_inv; auto|].
  destruct (Nat.leb BUFSZ n).
  - pose proof (tee_read_inv d n s Hn HI) as H. destruct (tee_read n s) as [[o e] s1].
    simpl. apply set_buf_inv; tauto.
  - pose proof (tee_read_inv d BUFSZ s ltac:(unfold BUFSZ; lia) HI) as H.
    destruct (tee_read BUFSZ s) as [[o e] s1]. destruct o; simpl; apply set_buf_inv; tauto.
Qed.

Lemma rd_full_loop_inv d fuel : forall n acc s, Inv d s -> Inv d (snd (rd_full_loop fuel n acc s)).
Proof.
  induction fuel as [|f IH]; intros n acc s HI; destruct n as [|n']; simpl; auto.
  pose proof (rd_once_inv d (S n') s ltac:(lia) HI) as H.
  destruct (rd_once (S n') s) as [[o e] s1]. simpl in H.
  destruct e as [err|].
  - repeat match goal with |- context [match ?x with 0 => _ | S _ => _ end] => destruct x end; simpl; auto.
  - apply IH; auto.
Qed.

Theorem run_inv {A} (p : prog A) : forall d s, Inv d s -> Inv d (snd (run p s)).
Proof.
  induction p as [a | k IH | n k IH | n k IH]; intros d s HI; simpl; auto.
  - pose proof (rd_byte_inv d s HI) as H. destruct (rd_byte s) as [r s1]. simpl in H. apply IH; auto.
  - destruct n as [|n']; [apply IH; auto|].
    pose proof (rd_once_inv d (S n') s ltac:(lia) HI) as H.
    destruct (rd_once (S n') s) as [[o e] s1]. simpl in H. apply IH; auto.
  - pose proof (rd_full_loop_inv d (S n) n [] s HI) as H. unfold rd_full.
    destruct (rd_full_loop (S n) n [] s) as [[o e] s1]. simpl in H. apply IH; auto.
Qed.

(* Load: returns the parser's result and the replay stream MultiReader(rewind, r) *)
Definition load {A} (p : prog A) (r : src) : A * src :=
  let '(a, s) := run p (init r) in (a, Multi (rewind s) (under s)).

Theorem load_replays_everything {A} (p : prog A) (r : src) :
  src_data (snd (load p r)) = src_data r.
Proof.
  unfold load. pose proof (run_inv p (src_data r) (init r) eq_refl) as H.
  destruct (run p (init r)) as [a s]. exact H.
Qed.
Print Assumptions load_replays_everything.

(* ================= schedule independence (C08 core) ================= *)
(* pure meaning of programs over a finite stream that ends with EOF (no failure) *)
Fixpoint run_pure {A} (p : prog A) (d : list byte) : A * list byte :=
  match p with
  | Ret a => (a, d)
  | RdByte k => match d with b :: d' => run_pure (k (inl b)) d' | [] => run_pure (k (inr EOF)) [] end
  | RdOnce _ k => run_pure (k ([], None)) d      (* meaningless; excluded by no_rd_once *)
  | RdFull n k =>
    match n with
    | 0 => run_pure (k ([], None)) d
    | _ =>
      let o := firstn n d in let d' := skipn n d in
      if Nat.leb n (length d) then run_pure (k (o, None)) d'
      else run_pure (k (o, Some (match o with [] => EOF | _ => UnexpectedEOF end))) []
    end
  end.

Inductive no_rd_once {A} : prog A -> Prop :=
| nro_ret a : no_rd_once (Ret a)
| nro_byte k : (forall r, no_rd_once (k r)) -> no_rd_once (RdByte k)
| nro_full n k : (forall r, no_rd_once (k r)) -> no_rd_once (RdFull n k).

(* sources that never fail and whose segments are >= 1 byte: always by construction here *)
Fixpoint nofail (s : src) : Prop :=
  match s with Base b => fail_after b = None | Multi _ i => nofail i end.

(* remaining stream as seen through the bufio *)
Definition stream (s : st) : list byte := buf s ++ src_data (under s).
(* a pending error is only ever EOF and only when the source is exhausted *)
Definition PInv (s : st) : Prop :=
  nofail (under s) /\ match pend s with Some e => e = EOF /\ src_data (under s) = [] | None => True end.

Lemma base_read_nofail n b : 0 < n -> fail_after b = None ->
  let '(o, e, b') := base_read n b in
  fail_after b' = None /\ o ++ rest b' = rest b /\ length o <= n /\
  (o = [] -> e = Some EOF /\ rest b = []) /\
  (forall err, e = Some err -> err = EOF /\ rest b' = []).
Proof.
  intros Hn Hf. unfold base_read. rewrite Hf.
  set (seg := match sched b with s :: _ => S s | [] => n end).
  set (k := min3 n seg (Nat.min (length (rest b)) (length (rest b)))).
  assert (Hseg : 0 < seg) by (unfold seg; destruct (sched b); lia).
  destruct k as [|k'] eqn:Ek.
  - assert (Hl : length (rest b) = 0) by (unfold k, min3 in Ek; lia).
    assert (Hr : rest b = []) by (destruct (rest b); [reflexivity|discriminate]).
    split; [exact Hf|]. split; [simpl; exact eq_refl|]. split; [simpl; lia|]. split.
    + intros _. split; [reflexivity|exact Hr].
    + intros err H. inversion H. split; [reflexivity|exact Hr].
  - rewrite <- Ek.
    assert (Ho : firstn k (rest b) <> []).
    { intro H. apply (f_equal (@length _)) in H. rewrite firstn_length in H. simpl in H.
      unfold k, min3 in *. lia. }
    destruct (eof_with_data b && _) eqn:Ee.
    + split; [reflexivity|]. split; [apply firstn_skipn|].
      split; [rewrite firstn_length; unfold k, min3; lia|]. split; [intros H; contradiction|].
      intros err H. inversion H. split; [reflexivity|].
      apply Bool.andb_true_iff in Ee. destruct Ee as [_ Ee]. rewrite Bool.orb_false_r in Ee.
      simpl in Ee. destruct (skipn k (rest b)); [reflexivity|discriminate].
    + split; [reflexivity|]. split; [apply firstn_skipn|].
      split; [rewrite firstn_length; unfold k, min3; lia|]. split; [intros H; contradiction|].
      intros err H; discriminate.
Qed.

Lemma src_read_nofail n s : 0 < n -> nofail s ->
  let '(o, e, s') := src_read n s in
  nofail s' /\ o ++ src_data s' = src_data s /\ length o <= n /\
  (o = [] -> e = Some EOF /\ src_data s = []) /\
  (forall err, e = Some err -> err = EOF /\ src_data s' = []).
Proof.
  intros Hn. induction s as [b | bf inner IH]; intros Hnf; simpl in *.
  - pose proof (base_read_nofail n b Hn Hnf) as H.
    destruct (base_read n b) as [[o e] b'].
    destruct H as (H1 & H2 & H2' & H3 & H4). simpl. unfold base_data. rewrite H1, Hnf. auto.
  - destruct bf as [|x bf'].
    + specialize (IH Hnf). destruct (src_read n inner) as [[o e] i']. simpl. exact IH.
    + simpl. split; [exact Hnf|]. split.
      * destruct n; [lia|]. simpl. f_equal. rewrite app_assoc, firstn_skipn. reflexivity.
      * split; [destruct n; simpl; [lia|]; rewrite firstn_length; lia|].
        split; [destruct n; [lia|]; simpl; discriminate|]. intros err H; discriminate.
Qed.

Lemma tee_read_sim n s : 0 < n -> PInv s ->
  let '(o, e, s1) := tee_read n s in
  nofail (under s1) /\ o ++ src_data (under s1) = src_data (under s) /\ length o <= n /\
  (o = [] -> e = Some EOF /\ src_data (under s) = []) /\
  (forall err, e = Some err -> err = EOF /\ src_data (under s1) = []) /\
  buf s1 = buf s /\ pend s1 = pend s.
Proof.
  intros Hn [Hnf _]. unfold tee_read.
  pose proof (src_read_nofail n (under s) Hn Hnf) as H.
  destruct (src_read n (under s)) as [[o e] u']. simpl. tauto.
Qed.

Lemma rd_byte_sim s : PInv s ->
  let '(r, s1) := rd_byte s in
  PInv s1 /\
  match stream s with
  | b :: d' => r = inl b /\ stream s1 = d'
  | [] => r = inr EOF /\ stream s1 = []
  end.
Proof.
  intros HP. pose proof HP as [Hnf Hpend]. unfold rd_byte, stream.
  destruct (buf s) as [|b bs] eqn:Eb.
  - destruct (pend s) as [e|] eqn:Ep.
    + destruct Hpend as [He Hd]. subst e. simpl. rewrite Hd. split; [split; simpl; auto|auto].
    + pose proof (tee_read_sim BUFSZ s ltac:(unfold BUFSZ; lia) HP) as H.
      destruct (tee_read BUFSZ s) as [[o e] s1].
      destruct H as (H1 & H2 & _ & H3 & H4 & H5 & H6).
      destruct o as [|b bs].
      * destruct (H3 eq_refl) as [He Hd]. subst e. simpl in *. rewrite Hd.
        split; [split; simpl; auto|]. rewrite <- H2 in Hd. simpl. auto.
      * simpl. rewrite <- H2. simpl. split; [|auto].
        split; simpl; auto. destruct e as [err|]; auto.
  - simpl. split; [split; simpl; auto|auto].
Qed.

Lemma rd_once_sim n s : 0 < n -> PInv s ->
  let '(o, e, s1) := rd_once n s in
  PInv s1 /\ o ++ stream s1 = stream s /\ length o <= n /\
  (o = [] -> e = Some EOF /\ stream s = []) /\
  (forall err, e = Some err -> err = EOF /\ stream s1 = []).
Proof.
  intros Hn HP. pose proof HP as [Hnf Hpend]. unfold rd_once, stream.
  destruct (buf s) as [|b bs] eqn:Eb.
  - destruct (pend s) as [e|] eqn:Ep.
    + destruct Hpend as [He Hd]. subst e. simpl. rewrite Hd.
      split; [split; simpl; auto|]. split; [reflexivity|]. split; [lia|].
      split; [auto|]. intros err H; inversion H; auto.
    + destruct (Nat.leb BUFSZ n) eqn:El.
      * pose proof (tee_read_sim n s Hn HP) as H.
        destruct (tee_read n s) as [[o e] s1].
        destruct H as (H1 & H2 & H2' & H3 & H4 & H5 & H6). simpl.
        split; [split; simpl; auto|]. split; [exact H2|]. split; [exact H2'|]. split; [exact H3|exact H4].
      * pose proof (tee_read_sim BUFSZ s ltac:(unfold BUFSZ; lia) HP) as H.
        destruct (tee_read BUFSZ s) as [[o e] s1].
        destruct H as (H1 & H2 & H2' & H3 & H4 & H5 & H6).
        destruct o as [|x o'].
        -- simpl. destruct (H3 eq_refl) as [He Hd]. subst e.
           split; [split; simpl; auto|]. split; [exact H2|]. split; [lia|].
           split; [auto|]. intros err H; inversion H; split; auto. rewrite <- H2 in Hd. exact Hd.
        -- cbn [fst snd]. set (oo := x :: o') in *.
           split.
           { split; simpl; auto. destruct e as [err|]; auto. }
           split.
           { simpl buf. simpl under. rewrite app_assoc, firstn_skipn. exact H2. }
           split; [rewrite firstn_length; lia|].
           split.
           { intros H. exfalso. destruct n; [lia|]. simpl in H. discriminate. }
           intros err H; discriminate.
  - cbn [fst snd]. set (bb := b :: bs) in *.
    split; [split; simpl; auto|].
    split; [simpl buf; simpl under; rewrite app_assoc, firstn_skipn; reflexivity|].
    split; [rewrite firstn_length; lia|].
    split; [intros H; exfalso; destruct n; [lia|]; simpl in H; discriminate|].
    intros err H; discriminate.
Qed.

Lemma rd_full_loop_sim fuel : forall n acc s, PInv s -> n <= fuel ->
  let '(o, e, s1) := rd_full_loop fuel n acc s in
  let d := stream s in
  PInv s1 /\ o = acc ++ firstn n d /\
  (if Nat.leb n (length d) then e = None /\ stream s1 = skipn n d
   else e = Some (match o with [] => EOF | _ => UnexpectedEOF end) /\ stream s1 = []).
Proof.
  induction fuel as [|f IH]; intros n acc s HP Hf.
  - assert (n = 0) by lia. subst n. simpl. rewrite app_nil_r. auto.
  - destruct n as [|n']; [simpl; rewrite app_nil_r; auto|].
    cbn [rd_full_loop].
    pose proof (rd_once_sim (S n') s ltac:(lia) HP) as H.
    destruct (rd_once (S n') s) as [[o e] s1].
    destruct H as (HP1 & H2 & H2' & H3 & H4).
    destruct e as [err|].
    + destruct (H4 err eq_refl) as [He Hs1]. subst err.
      rewrite Hs1, app_nil_r in H2. subst o.
      destruct (S n' - length (stream s)) eqn:Ed.
      * assert (Hl : length (stream s) = S n') by lia.
        cbn zeta. split; [exact HP1|]. rewrite <- Hl, firstn_all, Nat.leb_refl. rewrite skipn_all. auto.
      * assert (Hl : length (stream s) < S n') by lia.
        cbn zeta. split; [exact HP1|]. rewrite firstn_all2 by lia.
        replace (Nat.leb (S n') (length (stream s))) with false by (symmetry; apply Nat.leb_gt; lia).
        split; [reflexivity|]. split; [|exact Hs1].
        destruct (acc ++ stream s); reflexivity.
    + assert (Ho : o <> []) by (intro Ho; destruct (H3 Ho); discriminate).
      assert (Hlo : 0 < length o) by (destruct o; [contradiction|simpl; lia]).
      specialize (IH (S n' - length o) (acc ++ o) s1 HP1 ltac:(lia)).
      destruct (rd_full_loop f (S n' - length o) (acc ++ o) s1) as [[o2 e2] s2].
      cbn zeta in *. destruct IH as (HP2 & Ho2 & Hrest). split; [exact HP2|].
      rewrite <- H2. split.
      * rewrite Ho2, <- app_assoc. f_equal.
        rewrite firstn_app. rewrite (firstn_all2 o) by lia. reflexivity.
      * rewrite app_length.
        destruct (Nat.leb (S n' - length o) (length (stream s1))) eqn:E1.
        -- apply Nat.leb_le in E1. replace (Nat.leb (S n') (length o + length (stream s1))) with true
             by (symmetry; apply Nat.leb_le; lia).
           destruct Hrest as [He2 Hs2]. split; [exact He2|]. rewrite Hs2.
           rewrite skipn_app. rewrite (skipn_all2 o) by lia. reflexivity.
        -- apply Nat.leb_gt in E1. replace (Nat.leb (S n') (length o + length (stream s1))) with false
             by (symmetry; apply Nat.leb_gt; lia). exact Hrest.
Qed.

Theorem sched_independent {A} (p : prog A) : no_rd_once p ->
  forall s, PInv s -> fst (run p s) = fst (run_pure p (stream s)).
Proof.
  induction 1 as [a | k Hk IH | n k Hk IH]; intros s HP.
  - reflexivity.
  - cbn [run run_pure]. pose proof (rd_byte_sim s HP) as H.
    destruct (rd_byte s) as [r s1]. destruct H as [HP1 H].
    destruct (stream s) as [|b d'].
    + destruct H as [Hr Hs]. subst r. rewrite (IH _ s1 HP1), Hs. reflexivity.
    + destruct H as [Hr Hs]. subst r. rewrite (IH _ s1 HP1), Hs. reflexivity.
  - cbn [run run_pure]. unfold rd_full.
    pose proof (rd_full_loop_sim (S n) n [] s HP ltac:(lia)) as H.
    destruct (rd_full_loop (S n) n [] s) as [[o e] s1]. cbn zeta in H.
    destruct H as (HP1 & Ho & Hrest). simpl in Ho. subst o.
    destruct n as [|n'].
    + simpl in *. destruct Hrest as [He Hs]. subst e. rewrite (IH _ s1 HP1), Hs. reflexivity.
    + destruct (Nat.leb (S n') (length (stream s))).
      * destruct Hrest as [He Hs]. subst e. rewrite (IH _ s1 HP1), Hs. reflexivity.
      * destruct Hrest as [He Hs]. subst e. rewrite (IH _ s1 HP1), Hs. reflexivity.
Qed.

(* every schedule, every EOF style, every nesting of MultiReaders gives the pure answer *)
Corollary load_sched_independent {A} (p : prog A) (r : src) :
  no_rd_once p -> nofail r -> fst (load p r) = fst (run_pure p (src_data r)).
Proof.
  intros Hp Hr. unfold load.
  pose proof (sched_independent p Hp (init r) (conj Hr I)) as H.
  destruct (run p (init r)) as [a s]. exact H.
Qed.
Print Assumptions load_sched_independent.
