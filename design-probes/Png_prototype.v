(* DESIGN-PHASE FEASIBILITY PROBE — not part of the verification machinery, not wired to
   any check.  Requires IO_prototype.v (coqc IO_prototype.v; coqc -Q . "" Png_prototype.v).
   Question answered: can a parser written as an interaction tree with Go's loop
   structure (declared 32-bit lengths, fuel for `for i < len { ReadByte }`) be proved
   against a byte-level builder of well-formed files by induction over the chunk list?
   Yes: `png_meta_ok` (C05 for PNG in pure form, plus "stops exactly after the IDAT
   header", the end_of_needed component C18 uses) is closed under the global context.
   The model here is the chunk loop of pngmeta.extractMetadata *without* the iCCP case and
   with io.ReadFull semantics for the fixed-size fields (i.e. the post-repair code).
   See DESIGN.md sections 4.3 and 5 (C05, C18). *)
From Coq Require Import List NArith ZArith Lia Bool. From Coq Require Import Strings.Byte.
Require Import IO_prototype.
Import ListNotations.

(* ---------- monad ---------- *)
Fixpoint bind {A B} (p : prog A) (f : A -> prog B) : prog B :=
  match p with
  | Ret a => f a
  | RdByte k => RdByte (fun r => bind (k r) f)
  | RdOnce n k => RdOnce n (fun r => bind (k r) f)
  | RdFull n k => RdFull n (fun r => bind (k r) f)
  end.

Lemma run_pure_bind {A B} (p : prog A) (f : A -> prog B) d :
  run_pure (bind p f) d = let '(a, d') := run_pure p d in run_pure (f a) d'.
Proof.
  revert d. induction p as [a | k IH | n k IH | n k IH]; intros d; cbn [bind run_pure].
  - reflexivity.
  - destruct d; apply IH.
  - apply IH.
  - destruct n; [apply IH|]. destruct (Nat.leb (S n) (length d)); apply IH.
Qed.

Inductive res (A : Type) := Ok (a : A) | Eof | Fail | OutOfFuel.
Arguments Ok {A}. Arguments Eof {A}. Arguments Fail {A}. Arguments OutOfFuel {A}.

Definition rbind {A B} (p : prog (res A)) (f : A -> prog (res B)) : prog (res B) :=
  bind p (fun r => match r with Ok a => f a | Eof => Ret Eof | Fail => Ret Fail | OutOfFuel => Ret OutOfFuel end).
Notation "x <- p ;; q" := (rbind p (fun x => q)) (at level 61, p at next level, right associativity).

Definition rd_b : prog (res byte) :=
  RdByte (fun r => match r with inl b => Ret (Ok b) | inr EOF => Ret Eof | inr _ => Ret Fail end).
Definition bN (b : byte) : N := Byte.to_N b.
Definition rd_u32be : prog (res N) :=
  b1 <- rd_b ;; b2 <- rd_b ;; b3 <- rd_b ;; b4 <- rd_b ;;
  Ret (Ok (bN b1 * 16777216 + bN b2 * 65536 + bN b3 * 256 + bN b4)%N).
Definition rd_exact (n : nat) : prog (res (list byte)) :=
  RdFull n (fun r => match r with (o, None) => Ret (Ok o) | (_, Some EOF) => Ret Eof | _ => Ret Fail end).

(* for i := 0; i < n; i++ { ReadByte } — n is a declared 32-bit number, fuel bounds the loop *)
Fixpoint skip (fuel : nat) (n : N) : prog (res unit) :=
  match n with
  | N0 => Ret (Ok tt)
  | _ =>
    match fuel with
    | 0 => Ret OutOfFuel
    | S f => _ <- rd_b ;; skip f (N.pred n)
    end
  end.

Record meta := { width : N; height : N; depth : N }.

Definition ty_IHDR := ["I"; "H"; "D"; "R"]%byte.
Definition ty_IDAT := ["I"; "D"; "A"; "T"]%byte.
Definition ty_IEND := ["I"; "E"; "N"; "D"]%byte.
Definition png_sig : list byte := [x89; "P"; "N"; "G"; x0d; x0a; x1a; x0a]%byte.

Definition list_byte_eqb (a b : list byte) : bool :=
  if list_eq_dec Byte.byte_eq_dec a b then true else false.

Definition u32sub (a b : N) : N := ((a + 4294967296 - b) mod 4294967296)%N.

(* the chunk loop of pngmeta.extractMetadata without the iCCP case *)
Fixpoint chunks (fuel : nat) (skipfuel : nat) (found : option meta) : prog (res meta) :=
  match fuel with
  | 0 => Ret OutOfFuel
  | S f =>
    bind rd_u32be (fun rl =>
    match rl with
    | Eof => Ret (match found with Some m => Ok m | None => Fail end)   (* errors.Is(err, io.EOF): break *)
    | Fail => Ret Fail | OutOfFuel => Ret OutOfFuel
    | Ok len =>
      ty <- rd_exact 4 ;;
      if list_byte_eqb ty ty_IHDR then
        w <- rd_u32be ;; h <- rd_u32be ;; d <- rd_b ;;
        _ <- skip skipfuel (u32sub len 9) ;; _ <- rd_u32be ;;
        chunks f skipfuel (Some {| width := w; height := h; depth := bN d |})
      else if list_byte_eqb ty ty_IDAT || list_byte_eqb ty ty_IEND then
        Ret (match found with Some m => Ok m | None => Fail end)
      else
        _ <- skip skipfuel len ;; _ <- rd_u32be ;; chunks f skipfuel found
    end)
  end.

Definition png_prog (fuel : nat) : prog (res meta) :=
  s <- rd_exact 8 ;;
  if list_byte_eqb s png_sig then chunks fuel fuel None else Ret Fail.

(* ---------- specification: a builder of well-formed PNG prefixes ---------- *)
Definition u32be (n : N) : list byte :=
  match Byte.of_N (n / 16777216 mod 256), Byte.of_N (n / 65536 mod 256), Byte.of_N (n / 256 mod 256), Byte.of_N (n mod 256) with
  | Some a, Some b, Some c, Some d => [a; b; c; d]
  | _, _, _, _ => []
  end%N.
Record chunk := { cty : list byte; cdata : list byte; ccrc : list byte }.
Definition chunk_bytes (c : chunk) : list byte :=
  u32be (N.of_nat (length (cdata c))) ++ cty c ++ cdata c ++ ccrc c.
Definition wf_anc (c : chunk) : Prop :=
  length (cty c) = 4 /\ length (ccrc c) = 4 /\ (N.of_nat (length (cdata c)) < 4294967296)%N /\
  cty c <> ty_IHDR /\ cty c <> ty_IDAT /\ cty c <> ty_IEND.
Definition ihdr_data (w h : N) (d : byte) (rest : list byte) : list byte := u32be w ++ u32be h ++ d :: rest.
Definition png_prefix (w h : N) (d : byte) (rest crc : list byte) (anc : list chunk) (idatlen : N) : list byte :=
  png_sig ++ u32be (N.of_nat (9 + length rest)) ++ ty_IHDR ++ ihdr_data w h d rest ++ crc
  ++ concat (map chunk_bytes anc) ++ u32be idatlen ++ ty_IDAT.

(* ---------- lemmas about the primitives under run_pure ---------- *)
From Coq Require Import ZifyN ZifyNat.
Ltac Zify.zify_post_hook ::= Z.div_mod_to_equations.

Lemma rbind_ok {A B} (p : prog (res A)) (f : A -> prog (res B)) d a d' :
  run_pure p d = (Ok a, d') -> run_pure (rbind p f) d = run_pure (f a) d'.
Proof. intros H. unfold rbind. rewrite run_pure_bind, H. reflexivity. Qed.

Lemma rd_b_cons b d : run_pure rd_b (b :: d) = (Ok b, d).
Proof. reflexivity. Qed.

Lemma of_N_some (n : N) : (n < 256)%N -> exists b, Byte.of_N n = Some b /\ bN b = n.
Proof.
  intros H. destruct (Byte.of_N n) as [b|] eqn:E.
  - exists b. split; [reflexivity|]. apply Byte.to_of_N. exact E.
  - apply Byte.of_N_None_iff in E. lia.
Qed.

Lemma u32be_spec n : (n < 4294967296)%N ->
  exists a b c d, u32be n = [a; b; c; d] /\
    (bN a * 16777216 + bN b * 65536 + bN c * 256 + bN d = n)%N.
Proof.
  intros H. unfold u32be.
  destruct (of_N_some (n / 16777216 mod 256)) as (a & Ea & Ha); [lia|].
  destruct (of_N_some (n / 65536 mod 256)) as (b & Eb & Hb); [lia|].
  destruct (of_N_some (n / 256 mod 256)) as (c & Ec & Hc); [lia|].
  destruct (of_N_some (n mod 256)) as (d & Ed & Hd); [lia|].
  rewrite Ea, Eb, Ec, Ed. exists a, b, c, d. split; [reflexivity|]. rewrite Ha, Hb, Hc, Hd. lia.
Qed.

Lemma rd_u32be_ok n d : (n < 4294967296)%N -> run_pure rd_u32be (u32be n ++ d) = (Ok n, d).
Proof.
  intros H. destruct (u32be_spec n H) as (a & b & c & e & E & Hn). rewrite E. unfold rd_u32be.
  cbn [app]. erewrite rbind_ok by apply rd_b_cons. erewrite rbind_ok by apply rd_b_cons.
  erewrite rbind_ok by apply rd_b_cons. erewrite rbind_ok by apply rd_b_cons.
  cbn [run_pure]. rewrite Hn. reflexivity.
Qed.

Lemma u32be_length n : (n < 4294967296)%N -> length (u32be n) = 4.
Proof. intros H. destruct (u32be_spec n H) as (a & b & c & e & E & _). rewrite E. reflexivity. Qed.

Lemma rd_exact_ok l d : length l <> 0 -> run_pure (rd_exact (length l)) (l ++ d) = (Ok l, d).
Proof.
  intros Hl. unfold rd_exact. cbn [run_pure]. destruct (length l) as [|n] eqn:E; [congruence|].
  rewrite <- E. rewrite app_length.
  replace (Nat.leb (length l) (length l + length d)) with true by (symmetry; apply Nat.leb_le; lia).
  rewrite firstn_app, Nat.sub_diag, firstn_all, firstn_O, app_nil_r.
  rewrite skipn_app, Nat.sub_diag, skipn_all. reflexivity.
Qed.

Lemma skip_ok fuel : forall l d, length l <= fuel ->
  run_pure (skip fuel (N.of_nat (length l))) (l ++ d) = (Ok tt, d).
Proof.
  induction fuel as [|f IH]; intros l d Hf.
  - destruct l; [reflexivity|simpl in Hf; lia].
  - destruct l as [|b l]; [reflexivity|].
    cbn [length]. rewrite Nat2N.inj_succ. cbn [skip].
    destruct (N.succ (N.of_nat (length l))) eqn:E; [lia|]. rewrite <- E.
    cbn [app]. erewrite rbind_ok by apply rd_b_cons. rewrite N.pred_succ. apply IH. simpl in Hf. lia.
Qed.

Lemma lbe_refl a : list_byte_eqb a a = true.
Proof. unfold list_byte_eqb. destruct (list_eq_dec _ a a); congruence. Qed.
Lemma lbe_neq a b : a <> b -> list_byte_eqb a b = false.
Proof. unfold list_byte_eqb. destruct (list_eq_dec _ a b); congruence. Qed.

Lemma rd_u32be_any4 l d : length l = 4 -> exists n, run_pure rd_u32be (l ++ d) = (Ok n, d).
Proof.
  intros H. destruct l as [|a [|b [|c [|e [|? ?]]]]]; try discriminate. eexists.
  unfold rd_u32be. cbn [app]. erewrite rbind_ok by apply rd_b_cons. erewrite rbind_ok by apply rd_b_cons.
  erewrite rbind_ok by apply rd_b_cons. erewrite rbind_ok by apply rd_b_cons. reflexivity.
Qed.

Lemma chunks_skip_anc : forall anc fuel sf found tail,
  Forall wf_anc anc -> (forall c, In c anc -> length (cdata c) <= sf) ->
  run_pure (chunks (length anc + fuel) sf found) (concat (map chunk_bytes anc) ++ tail)
  = run_pure (chunks fuel sf found) tail.
Proof.
  induction anc as [|c anc IH]; intros fuel sf found tail Hwf Hsf; [reflexivity|].
  inversion Hwf as [|? ? Hc Hrest]; subst.
  destruct Hc as (Hty & Hcrc & Hlen & H1 & H2 & H3).
  cbn [length Nat.add map concat chunks]. unfold chunk_bytes. rewrite <- !app_assoc.
  rewrite run_pure_bind, rd_u32be_ok by exact Hlen.
  rewrite <- Hty. erewrite rbind_ok by (apply rd_exact_ok; lia).
  rewrite lbe_neq by exact H1. rewrite (lbe_neq _ ty_IDAT), (lbe_neq _ ty_IEND) by assumption.
  cbn [orb].
  erewrite rbind_ok by (apply skip_ok; apply Hsf; left; reflexivity).
  destruct (rd_u32be_any4 (ccrc c) (concat (map chunk_bytes anc) ++ tail) Hcrc) as [n Hn].
  erewrite rbind_ok by exact Hn.
  apply IH; [exact Hrest|]. intros c' Hin. apply Hsf. right. exact Hin.
Qed.

(* C05 for PNG, pure form: any IHDR (any length >= 9), any ancillary chunks, any body *)
Theorem png_meta_ok w h d rest crc anc idatlen body fuel :
  (w < 4294967296)%N -> (h < 4294967296)%N -> (idatlen < 4294967296)%N ->
  (N.of_nat (9 + length rest) < 4294967296)%N -> length crc = 4 ->
  Forall wf_anc anc ->
  length (png_prefix w h d rest crc anc idatlen ++ body) < fuel ->
  fst (run_pure (png_prog fuel) (png_prefix w h d rest crc anc idatlen ++ body))
  = Ok {| width := w; height := h; depth := bN d |}
  /\ snd (run_pure (png_prog fuel) (png_prefix w h d rest crc anc idatlen ++ body)) = body.
Proof.
  intros Hw Hh Hi Hl Hcrc Hanc Hfuel.
  unfold png_prog, png_prefix in *. rewrite <- !app_assoc in *.
  change png_sig with (png_sig) at 1.
  erewrite rbind_ok by (apply (rd_exact_ok png_sig); discriminate).
  rewrite lbe_refl.
  assert (Hf : exists f, fuel = S (length anc + S f)).
  { rewrite !app_length in Hfuel. rewrite u32be_length in Hfuel by lia.
    assert (length anc <= length (concat (map chunk_bytes anc))).
    { clear - Hanc. induction Hanc as [|c anc Hc _ IH]; [simpl; lia|].
      cbn [map concat length]. rewrite app_length. unfold chunk_bytes at 1.
      destruct Hc as (Hty & _). rewrite !app_length, Hty. lia. }
    exists (fuel - length anc - 2). simpl in Hfuel. lia. }
  destruct Hf as [f Hf].
  assert (Hsf : forall c, In c anc -> length (cdata c) <= fuel).
  { intros c Hin. rewrite !app_length in Hfuel.
    assert (length (cdata c) <= length (concat (map chunk_bytes anc))).
    { clear - Hin. induction anc as [|c' anc IH]; [contradiction|].
      cbn [map concat]. rewrite app_length. destruct Hin as [->|Hin].
      - unfold chunk_bytes. rewrite !app_length. lia.
      - specialize (IH Hin). lia. }
    lia. }
  assert (Hrest : length rest <= fuel) by (rewrite !app_length in Hfuel; unfold ihdr_data in Hfuel; rewrite !app_length in Hfuel; simpl in Hfuel; lia).
  rewrite Hf at 1 3. cbn [chunks].
  rewrite run_pure_bind, rd_u32be_ok by exact Hl.
  erewrite rbind_ok by (apply (rd_exact_ok ty_IHDR); discriminate).
  rewrite lbe_refl. unfold ihdr_data. rewrite <- !app_assoc.
  erewrite rbind_ok by (apply rd_u32be_ok; exact Hw).
  erewrite rbind_ok by (apply rd_u32be_ok; exact Hh).
  cbn [app]. erewrite rbind_ok by apply rd_b_cons.
  replace (u32sub (N.of_nat (9 + length rest)) 9) with (N.of_nat (length rest)) by (unfold u32sub; lia).
  erewrite rbind_ok by (apply skip_ok; exact Hrest).
  destruct (rd_u32be_any4 crc (concat (map chunk_bytes anc) ++ u32be idatlen ++ ty_IDAT ++ body) Hcrc) as [n Hn].
  erewrite rbind_ok by exact Hn.
  rewrite chunks_skip_anc by assumption.
  cbn [chunks]. rewrite run_pure_bind, rd_u32be_ok by exact Hi.
  erewrite rbind_ok by (apply (rd_exact_ok ty_IDAT); discriminate).
  rewrite (lbe_neq ty_IDAT ty_IHDR) by discriminate. rewrite lbe_refl. cbn [orb run_pure fst snd]. auto.
Qed.
Print Assumptions png_meta_ok.

Example png_nonvacuous :
  fst (run_pure (png_prog 200)
        (png_prefix 640 480 x08 [x02; x00; x00; x00]%byte [x00; x00; x00; x00]%byte
           [{| cty := ["g"; "A"; "M"; "A"]%byte; cdata := [x00; x00; xb1; x8f]%byte; ccrc := [x01; x02; x03; x04]%byte |}]
           17 ++ [x01; x02]%byte)) = Ok {| width := 640; height := 480; depth := 8 |}.
Proof. vm_compute. reflexivity. Qed.
